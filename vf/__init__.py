# vf: property-based verification machinery for husisy/numqi (see /verif/DESIGN.md)
