"""CLI: python -m vf.check Cxx [--tier quick|thorough] [--replay FILE] [--sub NAME] [--jobs N]

exit 0: property held on everything explored (known findings printed as KNOWN-FINDING lines)
exit 1: VIOLATION property=<id> replay=<path> printed for every new root cause
exit 2: harness error (never a violation)
"""
import os
import sys
import glob
import json
import time
import argparse
import collections

from . import core


def main(argv=None):
    ap = argparse.ArgumentParser()
    ap.add_argument('prop')
    ap.add_argument('--tier', default=os.environ.get('VERIF_TIER', 'quick'), choices=['quick', 'thorough'])
    ap.add_argument('--replay', default=None)
    ap.add_argument('--sub', default=None, help='comma separated sub-check names (debugging; evidence is still written)')
    ap.add_argument('--jobs', type=int, default=int(os.environ.get('VF_JOBS', '16')))
    ap.add_argument('--examples-scale', type=float, default=float(os.environ.get('VF_SCALE', '1')))
    args = ap.parse_args(argv)
    prop = args.prop.upper()
    try:
        seed = int(os.environ.get('VERIF_SEED', '1') or '1')
    except ValueError:
        seed = 1
    t0 = time.time()
    try:
        return _main(prop, args, seed, t0)
    except core.HarnessError as e:
        print(f'HARNESS-ERROR property={prop} {e}', file=sys.stderr)
        return 2
    except Exception as e:  # noqa
        import traceback
        traceback.print_exc()
        print(f'HARNESS-ERROR property={prop} unexpected {e!r}', file=sys.stderr)
        return 2


def _main(prop, args, seed, t0):
    core.configure_process()
    mod = core.load_property(prop)
    tier = args.tier

    if args.replay:
        f = core.replay_file(prop, args.replay)
        if f is None:
            print(f'OK property={prop} replay={args.replay} passes')
            return 0
        print(f'replay fails: key={f["key"]} detail={f["detail"]}')
        if f.get('tb'):
            print(f['tb'])
        print(f'VIOLATION property={prop} replay={args.replay}')
        return 1

    subs = list(mod.SUBCHECKS)
    if args.sub:
        want = set(args.sub.split(','))
        subs = [s for s in subs if s.name in want]
        if not subs:
            raise core.HarnessError('no such sub-check: ' + args.sub)

    violations = []  # (key, replay path, detail)
    known_lines = []
    excluded = collections.defaultdict(set)  # sub -> klass set
    known = core.load_known(prop)
    known_keys = {k['key'] for k in known}
    known_witness = set()
    for k in known:
        w = k.get('witness')
        if w:
            known_witness.add(os.path.normpath(w))
            f = core.replay_file(prop, w)
            if f is not None and f['key'] == k['key']:
                known_lines.append(f'KNOWN-FINDING: property={prop} key={k["key"]} {k["text"]}')
                excluded[f['sub']].add(f['klass'])
            elif f is not None:
                # witness fails differently from what is listed: that is a different violation
                violations.append((f['key'], w, f['detail']))
            else:
                print(f'note: known finding {k["key"]} no longer reproduces (stale entry)', file=sys.stderr)

    n_regress = 0
    for path in sorted(glob.glob(os.path.join(core.VERIF_DIR, 'regress', prop, '*.json'))):
        rel = os.path.relpath(path, core.VERIF_DIR)
        if os.path.normpath(rel) in known_witness:
            continue
        n_regress += 1
        f = core.replay_file(prop, rel)
        if f is not None and f['key'] not in known_keys:
            violations.append((f['key'], rel, f['detail']))

    budget = 420 if tier == 'quick' else 3000
    tasks = []
    for s in subs:
        n = s.shards[tier]
        for i in range(n):
            tasks.append((prop, s.name, tier, seed, i, n, tuple(sorted(excluded[s.name])), budget))
    results = []
    jobs = max(1, min(args.jobs, len(tasks)))
    os.environ['VF_SCALE'] = str(args.examples_scale)
    if jobs == 1:
        results = [core.run_task(t) for t in tasks]
    else:
        import multiprocessing as mp
        from concurrent.futures import ProcessPoolExecutor
        with ProcessPoolExecutor(max_workers=jobs, mp_context=mp.get_context('spawn')) as ex:
            results = list(ex.map(core.run_task, tasks))

    errors = [r for r in results if r['error']]
    if errors:
        for r in errors:
            print(f'HARNESS-ERROR property={prop} sub={r["sub"]} shard={r["shard"]}: {r["error"]}', file=sys.stderr)
        return 2

    # merge
    per_sub = {}
    for s in subs:
        per_sub[s.name] = dict(evaluations=0, cases=0, nontrivial=set(), labels=collections.Counter(), samples=[], nt_samples=[],
                               max_resid={}, excluded_known=sorted(excluded[s.name]), excluded_buckets=[], n_excluded=0,
                               budget_skipped=0, inconclusive=0, wall_s=0.0, shards=s.shards[tier],
                               kind='enumeration' if s.cases is not None else 'hypothesis', doc=s.doc)
    seen_keys = {v[0] for v in violations}
    for r in results:
        ps = per_sub[r['sub']]
        st = r['stats']
        ps['evaluations'] += st['evaluations']
        ps['cases'] += st['cases']
        ps['nontrivial'].update(st['nontrivial'])
        ps['labels'].update(st['labels'])
        if len(ps['samples']) < 2:
            ps['samples'] += st['samples'][:1]
        if len(ps['nt_samples']) < 2:
            ps['nt_samples'] += st['nt_samples'][:2 - len(ps['nt_samples'])]
        for k, v in st['max_resid'].items():
            ps['max_resid'][k] = max(ps['max_resid'].get(k, 0.0), v)
        ps['n_excluded'] += st['n_excluded']
        ps['budget_skipped'] += st['n_budget_skipped']
        ps['inconclusive'] += st['inconclusive']
        ps['wall_s'] = max(ps['wall_s'], r['wall_s'])
        ps['excluded_buckets'] += r['excluded_buckets']
        for f in r['failures']:
            if f['key'] in known_keys:
                line = f'KNOWN-FINDING: property={prop} key={f["key"]} (matched during search)'
                if not any(f['key'] in x for x in known_lines):
                    known_lines.append(line)
                continue
            if f['key'] in seen_keys:
                continue
            seen_keys.add(f['key'])
            rel = core.write_replay(f)
            violations.append((f['key'], rel, f['detail']))

    # generator health floors (harness bug, not a defect)
    for s in subs:
        ps = per_sub[s.name]
        for lab, frac in s.floors.items():
            if ps['excluded_buckets'] or ps['excluded_known']:
                continue  # a failing class was excluded by construction: the distribution is no longer the generator's
            if ps['cases'] >= 50 and ps['labels'].get(lab, 0) < frac * ps['cases'] and not ps['budget_skipped']:
                raise core.HarnessError(f'{prop}/{s.name}: label {lab!r} below its floor {frac}: '
                                        f'{ps["labels"].get(lab, 0)}/{ps["cases"]}')

    evaluations = sum(ps['evaluations'] for ps in per_sub.values())
    nontrivial = sum(len(ps['nontrivial']) for ps in per_sub.values())
    samples = []
    for name, ps in per_sub.items():
        for c in (ps['nt_samples'][:2] + ps['samples'][:1]):
            samples.append({'sub': name, 'case': c})
    sub_json = {}
    for name, ps in per_sub.items():
        d = dict(ps)
        d['nontrivial'] = len(ps['nontrivial'])
        d['labels'] = dict(sorted(ps['labels'].items(), key=lambda kv: -kv[1])[:60])
        d.pop('samples')
        d.pop('nt_samples')
        d['wall_s'] = round(d['wall_s'], 2)
        sub_json[name] = d
    wall = time.time() - t0
    exhaustive_subs = [s.name for s in subs if s.cases is not None]
    ev = dict(property_id=prop, tier=tier, seed=seed, level='exploration',
              coverage=dict(evaluations=evaluations, distinct_nontrivial=nontrivial, rule=mod.RULE, samples=samples,
                            exhaustive=False, exhaustive_subchecks=exhaustive_subs, subchecks=sub_json,
                            regress_replayed=n_regress, known_findings=known_lines,
                            budget_skipped=sum(ps['budget_skipped'] for ps in per_sub.values()),
                            inconclusive=sum(ps['inconclusive'] for ps in per_sub.values())),
              assumptions=list(getattr(mod, 'ASSUMPTIONS', [])), wall_s=round(wall, 2), violations=len(violations))
    os.makedirs(os.path.join(core.VERIF_DIR, 'evidence'), exist_ok=True)
    if not args.sub and not os.environ.get('VF_NO_EVIDENCE'):
        with open(os.path.join(core.VERIF_DIR, 'evidence', prop + '.json'), 'w') as fid:
            json.dump(ev, fid, indent=1)

    for line in known_lines:
        print(line)
    for name, ps in per_sub.items():
        print(f'  sub={name} evaluations={ps["evaluations"]} nontrivial={len(ps["nontrivial"])} excluded={ps["n_excluded"]} '
              f'budget_skipped={ps["budget_skipped"]} inconclusive={ps["inconclusive"]} wall={ps["wall_s"]:.1f}s')
    if violations:
        for key, rel, detail in violations:
            print(f'violated: key={key} detail={detail[:300]}')
            print(f'VIOLATION property={prop} replay={rel}')
        return 1
    print(f'OK property={prop} tier={tier} seed={seed} evaluations={evaluations} nontrivial={nontrivial} wall={wall:.1f}s')
    return 0


if __name__ == '__main__':
    sys.exit(main())
