"""Independent reference oracles, written from the mathematics (not from numqi)."""
import itertools
import functools
import math
import numpy as np

I2 = np.eye(2, dtype=np.complex128)
SX = np.array([[0, 1], [1, 0]], dtype=np.complex128)
SY = np.array([[0, -1j], [1j, 0]], dtype=np.complex128)
SZ = np.array([[1, 0], [0, -1]], dtype=np.complex128)
PAULI = {'I': I2, 'X': SX, 'Y': SY, 'Z': SZ}
HAD = np.array([[1, 1], [1, -1]], dtype=np.complex128) / math.sqrt(2)
SGATE = np.array([[1, 0], [0, 1j]], dtype=np.complex128)
TGATE = np.array([[1, 0], [0, np.exp(1j * np.pi / 4)]], dtype=np.complex128)


def kron(*ops):
    ret = np.ones((1, 1), dtype=np.complex128)
    for x in ops:
        ret = np.kron(ret, x)
    return ret


# ---------------------------------------------------------------------------------------------
# Pauli algebra on (phase exponent k in Z4, string): operator = i^k * kron(string)
_PTABLE = {  # single-qubit products a*b = i^k c
    ('I', 'I'): (0, 'I'), ('I', 'X'): (0, 'X'), ('I', 'Y'): (0, 'Y'), ('I', 'Z'): (0, 'Z'),
    ('X', 'I'): (0, 'X'), ('X', 'X'): (0, 'I'), ('X', 'Y'): (1, 'Z'), ('X', 'Z'): (3, 'Y'),
    ('Y', 'I'): (0, 'Y'), ('Y', 'X'): (3, 'Z'), ('Y', 'Y'): (0, 'I'), ('Y', 'Z'): (1, 'X'),
    ('Z', 'I'): (0, 'Z'), ('Z', 'X'): (1, 'Y'), ('Z', 'Y'): (3, 'X'), ('Z', 'Z'): (0, 'I'),
}


def pauli_mul(a, b):
    ka, sa = a
    kb, sb = b
    k = ka + kb
    out = []
    for x, y in zip(sa, sb):
        kk, c = _PTABLE[(x, y)]
        k += kk
        out.append(c)
    return k % 4, ''.join(out)


def pauli_inv(a):
    k, s = a
    return (-k) % 4, s


def pauli_commute(a, b):
    n = sum(1 for x, y in zip(a[1], b[1]) if x != 'I' and y != 'I' and x != y)
    return n % 2 == 0


def pauli_dense(a):
    k, s = a
    return (1j ** k) * kron(*[PAULI[c] for c in s])


def pauli_from_F2_dense(f2):
    """documented convention: i^(2 s0 + s1) * kron_j X^{x_j} Z^{z_j}"""
    f2 = [int(x) for x in f2]
    n = (len(f2) - 2) // 2
    ops = []
    for j in range(n):
        m = I2
        if f2[2 + j]:
            m = m @ SX
        if f2[2 + n + j]:
            m = m @ SZ
        ops.append(m)
    return (1j ** (2 * f2[0] + f2[1])) * kron(*ops)


def pauli_to_F2(a):
    """(k,str) -> F2 vector in the documented convention (XZ = -iY)"""
    k, s = a
    x = [1 if c in 'XY' else 0 for c in s]
    z = [1 if c in 'ZY' else 0 for c in s]
    ny = sum(1 for c in s if c == 'Y')
    # Y = i XZ  => kron(str) = i^{ny} kron X^x Z^z
    kk = (k + ny) % 4
    return [kk // 2, kk % 2] + x + z


def pauli_from_F2(f2):
    f2 = [int(v) for v in f2]
    n = (len(f2) - 2) // 2
    x = f2[2:2 + n]
    z = f2[2 + n:]
    s = ''.join({(0, 0): 'I', (1, 0): 'X', (0, 1): 'Z', (1, 1): 'Y'}[(a, b)] for a, b in zip(x, z))
    ny = s.count('Y')
    k = (2 * f2[0] + f2[1] - ny) % 4
    return k, s


def pauli_index(s):
    r = 0
    for c in s:
        r = r * 4 + 'IXYZ'.index(c)
    return r


def all_phased_paulis(n):
    return [(k, ''.join(s)) for s in itertools.product('IXYZ', repeat=n) for k in range(4)]


PHASE = {0: 1, 1: 1j, 2: -1, 3: -1j}


# ---------------------------------------------------------------------------------------------
# dense embedding by bit arithmetic (qubit 0 = most significant bit)

def embed(op, n, targets, controls=()):
    """2^n x 2^n matrix of `op` (2^k x 2^k, first target = most significant op index) acting on the ordered
    `targets`, identity elsewhere; with `controls`, acts only where all control bits are 1."""
    op = np.asarray(op)
    k = len(targets)
    assert op.shape == (2 ** k, 2 ** k)
    assert len(set(targets) | set(controls)) == k + len(controls)
    N = 2 ** n
    ret = np.zeros((N, N), dtype=np.complex128)
    tpos = [n - 1 - t for t in targets]  # bit position of each target
    cmask = 0
    for c in controls:
        cmask |= 1 << (n - 1 - c)
    for col in range(N):
        if (col & cmask) != cmask:
            ret[col, col] = 1
            continue
        a = 0
        for p in tpos:
            a = (a << 1) | ((col >> p) & 1)
        base = col
        for p in tpos:
            base &= ~(1 << p)
        for b in range(2 ** k):
            row = base
            for j, p in enumerate(tpos):
                if (b >> (k - 1 - j)) & 1:
                    row |= 1 << p
            ret[row, col] = op[b, a]
    return ret


def embed_dims(op, dims, targets):
    """general-dimension version: op acts on ordered targets of a system with local dims `dims`"""
    dims = list(dims)
    n = len(dims)
    N = int(np.prod(dims))
    td = [dims[t] for t in targets]
    K = int(np.prod(td))
    op = np.asarray(op).reshape(K, K)
    ret = np.zeros((N, N), dtype=np.complex128)
    for col_idx in itertools.product(*[range(d) for d in dims]):
        col = np.ravel_multi_index(col_idx, dims)
        a = np.ravel_multi_index([col_idx[t] for t in targets], td)
        for b_idx in itertools.product(*[range(d) for d in td]):
            b = np.ravel_multi_index(b_idx, td)
            row_idx = list(col_idx)
            for t, v in zip(targets, b_idx):
                row_idx[t] = v
            row = np.ravel_multi_index(row_idx, dims)
            ret[row, col] = op[b, a]
    return ret


# ---------------------------------------------------------------------------------------------
# partial trace / transpose / Born marginals by explicit loops

def partial_trace(rho, dims, keep):
    dims = list(dims)
    keep = sorted(keep)
    kd = [dims[i] for i in keep]
    rest = [i for i in range(len(dims)) if i not in keep]
    rd = [dims[i] for i in rest]
    K = int(np.prod(kd)) if kd else 1
    rho = np.asarray(rho).reshape(dims + dims)
    ret = np.zeros((K, K), dtype=np.complex128)
    for i_idx in itertools.product(*[range(d) for d in kd]):
        i = np.ravel_multi_index(i_idx, kd) if kd else 0
        for j_idx in itertools.product(*[range(d) for d in kd]):
            j = np.ravel_multi_index(j_idx, kd) if kd else 0
            acc = 0
            for r_idx in itertools.product(*[range(d) for d in rd]):
                a = [0] * len(dims)
                b = [0] * len(dims)
                for p, v in zip(keep, i_idx):
                    a[p] = v
                for p, v in zip(keep, j_idx):
                    b[p] = v
                for p, v in zip(rest, r_idx):
                    a[p] = v
                    b[p] = v
                acc += rho[tuple(a) + tuple(b)]
            ret[i, j] = acc
    return ret


def partial_transpose(rho, dims, sys_):
    """transpose subsystems in `sys_`"""
    dims = list(dims)
    n = len(dims)
    t = np.asarray(rho).reshape(dims + dims)
    perm = list(range(2 * n))
    for s in sys_:
        perm[s], perm[n + s] = perm[n + s], perm[s]
    N = int(np.prod(dims))
    return t.transpose(perm).reshape(N, N)


def born_marginal(psi, n, keep):
    """probabilities over `keep` (ascending), big-endian bit string order"""
    keep = list(keep)
    p = np.zeros(2 ** len(keep))
    for idx in range(2 ** n):
        o = 0
        for q in keep:
            o = (o << 1) | ((idx >> (n - 1 - q)) & 1)
        p[o] += abs(psi[idx]) ** 2
    return p


def project_outcome(psi, n, keep, bits):
    out = np.zeros_like(np.asarray(psi, dtype=np.complex128))
    for idx in range(2 ** n):
        ok = all(((idx >> (n - 1 - q)) & 1) == b for q, b in zip(keep, bits))
        if ok:
            out[idx] = psi[idx]
    return out


# ---------------------------------------------------------------------------------------------
# random payloads from a drawn integer (pure function of the seed)

def rng(seed):
    return np.random.default_rng(int(seed))


def rand_complex(r, *shape):
    return r.normal(size=shape) + 1j * r.normal(size=shape)


def rand_unitary(r, d):
    z = rand_complex(r, d, d)
    q, t = np.linalg.qr(z)
    ph = np.diag(t) / np.abs(np.diag(t))
    return q * ph


def rand_orthogonal(r, d):
    q, t = np.linalg.qr(r.normal(size=(d, d)))
    return q * np.sign(np.diag(t))


def rand_state(r, d):
    v = rand_complex(r, d)
    return v / np.linalg.norm(v)


def rand_dm(r, d, rank=None):
    rank = d if rank is None else rank
    a = rand_complex(r, d, rank)
    m = a @ a.conj().T
    return m / np.trace(m).real


def rand_hermitian(r, d):
    a = rand_complex(r, d, d)
    return (a + a.conj().T) / 2


def is_hermitian(m, tol=1e-10):
    m = np.asarray(m)
    return np.abs(m - m.conj().swapaxes(-1, -2)).max() <= tol


def min_eig(m):
    m = np.asarray(m)
    m = (m + m.conj().swapaxes(-1, -2)) / 2
    return float(np.linalg.eigvalsh(m).min())


# ---------------------------------------------------------------------------------------------
# my own gate matrices (from the documented generators)

def expm_herm(h, t):
    """exp(-i t h) for hermitian h"""
    w, v = np.linalg.eigh(h)
    return (v * np.exp(-1j * t * w)) @ v.conj().T


def rx(t):
    return expm_herm(SX, t / 2)


def ry(t):
    return expm_herm(SY, t / 2)


def rz(t):
    return expm_herm(SZ, t / 2)


def rzz(t):
    return expm_herm(np.kron(SZ, SZ), t / 2)


def u3(theta, phi, lam):
    c, s = math.cos(theta / 2), math.sin(theta / 2)
    return np.array([[c, -np.exp(1j * lam) * s], [np.exp(1j * phi) * s, np.exp(1j * (phi + lam)) * c]], dtype=np.complex128)


SWAP = np.array([[1, 0, 0, 0], [0, 0, 1, 0], [0, 1, 0, 0], [0, 0, 0, 1]], dtype=np.complex128)


# ---------------------------------------------------------------------------------------------
# combinatorics

@functools.lru_cache(None)
def num_partitions(n):
    """Euler pentagonal recurrence"""
    if n < 0:
        return 0
    if n == 0:
        return 1
    tot = 0
    k = 1
    while True:
        g1 = k * (3 * k - 1) // 2
        g2 = k * (3 * k + 1) // 2
        if g1 > n:
            break
        sgn = 1 if k % 2 == 1 else -1
        tot += sgn * num_partitions(n - g1)
        if g2 <= n:
            tot += sgn * num_partitions(n - g2)
        k += 1
    return tot


def partitions(n, maxpart=None):
    """all partitions of n as weakly decreasing tuples"""
    if maxpart is None:
        maxpart = n
    if n == 0:
        return [()]
    out = []
    for first in range(min(n, maxpart), 0, -1):
        for rest in partitions(n - first, first):
            out.append((first,) + rest)
    return out


def hook_number(shape):
    shape = list(shape)
    n = sum(shape)
    prod = 1
    for i, r in enumerate(shape):
        for j in range(r):
            arm = r - j - 1
            leg = sum(1 for rr in shape[i + 1:] if rr > j)
            prod *= arm + leg + 1
    return math.factorial(n) // prod


def sp_order(n):
    r = 1
    for i in range(1, n + 1):
        r *= (4 ** i - 1) * 2 ** (2 * i - 1)
    return r


def symplectic_form(n):
    z = np.zeros((n, n), dtype=np.uint8)
    e = np.eye(n, dtype=np.uint8)
    return np.block([[z, e], [e, z]])


# ---------------------------------------------------------------------------------------------
# generalized Gell-Mann basis from the textbook definition
# order: symmetric (i<j, row-major) | antisymmetric (i<j, row-major) | diagonal l=1..d-1 | sqrt(2/d) identity

@functools.lru_cache(None)
def gellmann_basis(d):
    sym, asym, diag = [], [], []
    for i in range(d):
        for j in range(i + 1, d):
            m = np.zeros((d, d), dtype=np.complex128)
            m[i, j] = 1
            m[j, i] = 1
            sym.append(m)
            m = np.zeros((d, d), dtype=np.complex128)
            m[i, j] = -1j
            m[j, i] = 1j
            asym.append(m)
    for l in range(1, d):
        m = np.zeros((d, d), dtype=np.complex128)
        for k in range(l):
            m[k, k] = 1
        m[l, l] = -l
        diag.append(m * math.sqrt(2 / (l * (l + 1))))
    ident = [np.eye(d, dtype=np.complex128) * math.sqrt(2 / d)]
    return np.stack(sym + asym + diag + ident)


def partial_trace_fast(rho, dims, keep):
    """second independent implementation: successive np.trace over axis pairs (highest index first)"""
    dims = list(dims)
    n = len(dims)
    keep = sorted(keep)
    t = np.asarray(rho).reshape(dims + dims)
    cur = n
    for i in reversed(range(n)):
        if i not in keep:
            t = np.trace(t, axis1=i, axis2=i + cur)
            cur -= 1
    K = int(np.prod([dims[i] for i in keep])) if keep else 1
    return np.asarray(t).reshape(K, K)


def dicke_vector(klist, dim):
    """normalised uniform superposition of all distinct arrangements with klist[j] qudits in level j"""
    levels = [j for j, c in enumerate(klist) for _ in range(c)]
    n = len(levels)
    arr = set(itertools.permutations(levels))
    v = np.zeros(dim ** n)
    for a in arr:
        idx = 0
        for x in a:
            idx = idx * dim + x
        v[idx] = 1.0
    return v / math.sqrt(len(arr))


def compositions(n, d):
    """all tuples of d non-negative integers summing to n"""
    if d == 1:
        return [(n,)]
    return [(x,) + y for x in range(n + 1) for y in compositions(n - x, d - 1)]


# ---------------------------------------------------------------------------------------------
# separable states by construction

VEC_KINDS = ['haar', 'real', 'basis', 'repeated', 'nearly_parallel']
WEIGHT_KINDS = ['dirichlet', 'equal', 'dominant']


def separable_state(r, dims, nterms, vec_kind='haar', weight_kind='dirichlet'):
    """sum_i p_i |a_i b_i ..><a_i b_i ..| ; returns (rho, list of product vectors, weights)"""
    dims = list(dims)
    D = int(np.prod(dims))
    if weight_kind == 'dirichlet':
        p = r.dirichlet(np.ones(nterms))
    elif weight_kind == 'equal':
        p = np.ones(nterms) / nterms
    else:
        p = np.full(nterms, 1e-12)
        p[0] = 1 - 1e-12 * (nterms - 1)
    base = [rand_state(r, d) for d in dims]
    vecs = []
    for i in range(nterms):
        loc = []
        for k, d in enumerate(dims):
            if vec_kind == 'haar':
                v = rand_state(r, d)
            elif vec_kind == 'real':
                v = r.normal(size=d).astype(np.complex128)
                v /= np.linalg.norm(v)
            elif vec_kind == 'basis':
                v = np.zeros(d, dtype=np.complex128)
                v[int(r.integers(0, d))] = 1
            elif vec_kind == 'repeated':
                v = base[k]
            else:
                v = base[k] + 1e-6 * rand_complex(r, d)
                v /= np.linalg.norm(v)
            loc.append(v)
        vecs.append(kron(*[x.reshape(-1, 1) for x in loc]).reshape(-1))
    rho = sum(w * np.outer(v, v.conj()) for w, v in zip(p, vecs))
    rho = (rho + rho.conj().T) / 2
    return rho / np.trace(rho).real, vecs, p


# --------------------------------------------------------------------------------------------- memory layouts
LAYOUTS = ['C', 'F', 'strided', 'readonly']


def with_layout(a, layout):
    """the same array (equal values, dtype, shape) in a different memory layout; value semantics must not depend on it"""
    a = np.asarray(a)
    if layout == 'F':
        return np.asfortranarray(a) if a.ndim >= 2 else a[::1]
    if layout == 'strided':
        if a.ndim == 0:
            return a
        big = np.zeros(tuple(2 * s for s in a.shape), dtype=a.dtype)
        sl = tuple(slice(1, None, 2) for _ in a.shape)
        big[sl] = a
        return big[sl]
    if layout == 'reversed':  # negative strides
        if a.ndim == 0:
            return a
        sl = tuple(slice(None, None, -1) for _ in a.shape)
        return np.ascontiguousarray(a[sl])[sl]
    if layout == 'readonly':
        b = a.copy()
        b.flags.writeable = False
        return b
    return np.ascontiguousarray(a)
