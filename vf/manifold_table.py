"""Table of trivialization maps shared by C01 (lands on the manifold) and C02 (full-rank differential).

Every row: name, fields, param-count formula (mine), functional call, module constructor, manifold dimension (textbook), allowed theta patterns.
"""
import numpy as np


def _nq():
    import numqi
    return numqi


def tri(n):
    return n * (n + 1) // 2


class Row:
    def __init__(self, name, fields, nparam, call, module=None, dimension=None, needs_rank=False, dims=(2, 6), structured=True,
                 scale_cap=100.0, scale_cap32=100.0, min_norm=False, opts=None, out_shape=None, max_batch_ndim=2, rank_range=None):
        self.name = name
        self.fields = fields
        self.nparam = nparam  # (field, dim, rank, opt) -> int
        self.call = call  # (theta, dim, rank, field, opt) -> array
        self.module = module  # (dim, rank, field, opt, batch_size, torch_dtype) -> torch module
        self.dimension = dimension  # (field, dim, rank, opt) -> manifold dimension (int)
        self.needs_rank = needs_rank
        self.dims = dims
        self.structured = structured  # all-equal / one-hot theta admissible (not a measure-zero singularity of the map)
        self.scale_cap = scale_cap
        self.scale_cap32 = scale_cap32
        self.min_norm = min_norm  # map singular at theta=0 (quotient): theta norm kept >= 1e-3 by construction
        self.opts = opts or [None]
        self.out_shape = out_shape
        self.max_batch_ndim = max_batch_ndim
        self.rank_range = rank_range


def build_rows():
    nq = _nq()
    m = nq.manifold
    import torch

    def cdt(field, tdt):
        if field == 'real':
            return tdt
        return torch.complex64 if tdt == torch.float32 else torch.complex128

    R = []
    # scalar maps ---------------------------------------------------------------------------------------------------------
    R.append(Row('positive_real_softplus', ['real'], lambda f, d, r, o: d, lambda t, d, r, f, o: m.to_positive_real_softplus(t),
                 module=lambda d, r, f, o, b, tdt: m.PositiveReal(batch_size=b, method='softplus', dtype=tdt), dimension=lambda f, d, r, o: d))
    R.append(Row('positive_real_exp', ['real'], lambda f, d, r, o: d, lambda t, d, r, f, o: m.to_positive_real_exp(t),
                 module=lambda d, r, f, o, b, tdt: m.PositiveReal(batch_size=b, method='exp', dtype=tdt), dimension=lambda f, d, r, o: d, scale_cap32=80.0))
    R.append(Row('open_interval', ['real'], lambda f, d, r, o: d, lambda t, d, r, f, o: m.to_open_interval(t, o[0], o[1]),
                 module=lambda d, r, f, o, b, tdt: m.OpenInterval(o[0], o[1], batch_size=b, dtype=tdt), dimension=lambda f, d, r, o: d,
                 opts=[(-1.0, 1.0), (0.0, 5.0), (-3.5, -1.25), (2.0, 2.5)]))
    # ball / sphere / simplex ---------------------------------------------------------------------------------------------
    R.append(Row('ball', ['real', 'complex'], lambda f, d, r, o: d if f == 'real' else 2 * d, lambda t, d, r, f, o: m.to_ball(t, is_real=(f == 'real')),
                 module=lambda d, r, f, o, b, tdt: m.Ball(d, batch_size=b, dtype=cdt(f, tdt)), dimension=lambda f, d, r, o: d if f == 'real' else 2 * d))
    R.append(Row('sphere_quotient', ['real', 'complex'], lambda f, d, r, o: d if f == 'real' else 2 * d,
                 lambda t, d, r, f, o: m.to_sphere_quotient(t, is_real=(f == 'real')),
                 module=lambda d, r, f, o, b, tdt: m.Sphere(d, batch_size=b, method='quotient', dtype=cdt(f, tdt)),
                 dimension=lambda f, d, r, o: d - 1 if f == 'real' else 2 * d - 1, min_norm=True))
    R.append(Row('sphere_coordinate', ['real', 'complex'], lambda f, d, r, o: d - 1 if f == 'real' else 2 * d - 1,
                 lambda t, d, r, f, o: m.to_sphere_coordinate(t, is_real=(f == 'real')),
                 module=lambda d, r, f, o, b, tdt: m.Sphere(d, batch_size=b, method='coordinate', dtype=cdt(f, tdt)),
                 dimension=lambda f, d, r, o: d - 1 if f == 'real' else 2 * d - 1))
    R.append(Row('simplex_softmax', ['real'], lambda f, d, r, o: d, lambda t, d, r, f, o: m.to_discrete_probability_softmax(t),
                 module=lambda d, r, f, o, b, tdt: m.DiscreteProbability(d, batch_size=b, method='softmax', dtype=tdt), dimension=lambda f, d, r, o: d - 1))
    R.append(Row('simplex_sphere', ['real'], lambda f, d, r, o: d, lambda t, d, r, f, o: m.to_discrete_probability_sphere(t),
                 module=lambda d, r, f, o, b, tdt: m.DiscreteProbability(d, batch_size=b, method='sphere', dtype=tdt), dimension=lambda f, d, r, o: d - 1,
                 min_norm=True))
    # trace-one PSD -------------------------------------------------------------------------------------------------------
    R.append(Row('trace1psd_cholesky', ['real', 'complex'],
                 lambda f, d, r, o: (r * (2 * d - r + 1)) // 2 if f == 'real' else 2 * ((r * (2 * d - r + 1)) // 2) - r,
                 lambda t, d, r, f, o: m.to_trace1_psd_cholesky(t, d, r),
                 module=lambda d, r, f, o, b, tdt: m.Trace1PSD(d, r, batch_size=b, method='cholesky', dtype=cdt(f, tdt)),
                 dimension=lambda f, d, r, o: (d * r - r * (r - 1) // 2 - 1) if f == 'real' else (2 * d * r - r * r - 1), needs_rank=True))
    R.append(Row('trace1psd_ensemble', ['real', 'complex'], lambda f, d, r, o: r + d * r if f == 'real' else r + 2 * d * r,
                 lambda t, d, r, f, o: m.to_trace1_psd_ensemble(t, d, r),
                 module=lambda d, r, f, o, b, tdt: m.Trace1PSD(d, r, batch_size=b, method='ensemble', dtype=cdt(f, tdt)),
                 dimension=lambda f, d, r, o: (d * r - r * (r - 1) // 2 - 1) if f == 'real' else (2 * d * r - r * r - 1), needs_rank=True, structured=False,
                 min_norm=True))
    # symmetric / Hermitian -----------------------------------------------------------------------------------------------
    for t0 in (False, True):
        for n1 in (False, True):
            R.append(Row(f'symmetric_t{int(t0)}n{int(n1)}', ['real', 'complex'],
                         (lambda t0: lambda f, d, r, o: (tri(d) if f == 'real' else d * d) - (1 if t0 else 0))(t0),
                         (lambda t0, n1: lambda t, d, r, f, o: m.to_symmetric_matrix(t, d, is_trace0=t0, is_norm1=n1))(t0, n1),
                         module=(lambda t0, n1: lambda d, r, f, o, b, tdt: m.SymmetricMatrix(d, batch_size=b, is_trace0=t0, is_norm1=n1, dtype=cdt(f, tdt)))(t0, n1),
                         dimension=(lambda t0, n1: lambda f, d, r, o: (tri(d) if f == 'real' else d * d) - (1 if t0 else 0) - (1 if n1 else 0))(t0, n1),
                         min_norm=n1, opts=[(t0, n1)]))
    # SO / SU -------------------------------------------------------------------------------------------------------------
    R.append(Row('so_exp', ['real', 'complex'], lambda f, d, r, o: d * (d - 1) // 2 if f == 'real' else d * d - 1,
                 lambda t, d, r, f, o: m.to_special_orthogonal_exp(t, d),
                 module=lambda d, r, f, o, b, tdt: m.SpecialOrthogonal(d, batch_size=b, method='exp', dtype=cdt(f, tdt)),
                 dimension=lambda f, d, r, o: d * (d - 1) // 2 if f == 'real' else d * d - 1, dims=(2, 5), scale_cap=30.0, scale_cap32=10.0))
    R.append(Row('so_cayley', ['real', 'complex'], lambda f, d, r, o: d * (d - 1) // 2 if f == 'real' else d * d - 1,
                 lambda t, d, r, f, o: m.to_special_orthogonal_cayley(t, d, order=o),
                 module=lambda d, r, f, o, b, tdt: m.SpecialOrthogonal(d, batch_size=b, method='cayley', cayley_order=o, dtype=cdt(f, tdt)),
                 dimension=lambda f, d, r, o: d * (d - 1) // 2 if f == 'real' else d * d - 1, dims=(2, 5), opts=[1, 2, 3], scale_cap=30.0, scale_cap32=10.0))
    # Stiefel -------------------------------------------------------------------------------------------------------------
    st_dim = lambda f, d, r, o: (d * r - tri(r)) if f == 'real' else (2 * d * r - r * r)
    R.append(Row('stiefel_polar', ['real', 'complex'], lambda f, d, r, o: d * r if f == 'real' else 2 * d * r, lambda t, d, r, f, o: m.to_stiefel_polar(t, d, r),
                 module=lambda d, r, f, o, b, tdt: m.Stiefel(d, r, batch_size=b, method='polar', dtype=cdt(f, tdt)), dimension=st_dim, needs_rank=True,
                 structured=False, min_norm=True))
    R.append(Row('stiefel_qr', ['real', 'complex'], lambda f, d, r, o: d * r if f == 'real' else 2 * d * r, lambda t, d, r, f, o: m.to_stiefel_qr(t, d, r),
                 module=lambda d, r, f, o, b, tdt: m.Stiefel(d, r, batch_size=b, method='qr', dtype=cdt(f, tdt)), dimension=st_dim, needs_rank=True,
                 structured=False, min_norm=True))
    R.append(Row('stiefel_choleskyL', ['real', 'complex'], lambda f, d, r, o: (d * r - tri(r)) * (1 if f == 'real' else 2),
                 lambda t, d, r, f, o: m.to_stiefel_choleskyL(t, d, r),
                 module=lambda d, r, f, o, b, tdt: m.Stiefel(d, r, batch_size=b, method='choleskyL', dtype=cdt(f, tdt)),
                 dimension=lambda f, d, r, o: (d * r - tri(r)) * (1 if f == 'real' else 2), needs_rank=True, scale_cap=10.0, scale_cap32=3.0))
    R.append(Row('stiefel_euler', ['real', 'complex'], lambda f, d, r, o: (d * r - tri(r)) if f == 'real' else (2 * d * r - r * (r + 1) + (r if o else 0)),
                 lambda t, d, r, f, o: m.to_stiefel_euler(t, d, r, with_phase=bool(o)),
                 module=lambda d, r, f, o, b, tdt: m.Stiefel(d, r, batch_size=b, method='euler', euler_with_phase=bool(o), dtype=cdt(f, tdt)),
                 dimension=lambda f, d, r, o: (d * r - tri(r)) if f == 'real' else (2 * d * r - r * (r + 1) + (r if o else 0)), needs_rank=True, opts=[False, True],
                 max_batch_ndim=1))
    return R


def stiefel_class_only_rows():
    """so-exp / so-cayley Stiefel slices exist only as a class option"""
    return ['so-exp', 'so-cayley']


PATTERNS = ['normal', 'uniform', 'equal', 'onehot', 'signflip', 'zero_sample']


def make_theta(rng, n, batch, scale, pattern, min_norm):
    shape = tuple(batch) + (n,)
    if pattern == 'normal':
        t = rng.normal(size=shape) * scale
    elif pattern == 'uniform':
        t = rng.uniform(-scale, scale, size=shape)
    elif pattern == 'equal':
        t = np.full(shape, scale) * rng.choice([-1.0, 1.0])
    elif pattern == 'onehot':
        t = np.zeros(shape)
        idx = rng.integers(0, n, size=tuple(batch))
        np.put_along_axis(t, np.asarray(idx)[..., None], scale, axis=-1)
    elif pattern == 'zero_sample':
        # one sample of the batch (or the single sample) is exactly zero: the maps that do not divide by a norm are defined there
        t = rng.normal(size=shape) * scale
        if not min_norm:
            if len(shape) == 1:
                t[...] = 0
            else:
                t[(0,) * (len(shape) - 1)] = 0
    else:
        t = np.abs(rng.normal(size=shape)) * scale * rng.choice([-1.0, 1.0], size=shape)
    if min_norm:
        nr = np.linalg.norm(t, axis=-1, keepdims=True)
        t = np.where(nr < 1e-3 * min(1.0, scale), t + 1e-2 * min(1.0, scale), t)  # relative to the scale: tiny non-zero vectors are inside the domain
    return t
