"""Runner core: contexts, failure capture, replay files, known findings, evidence.

A property module (vf/props/cXX.py) exposes

    PROPERTY = 'Cxx'
    RULE = '...'            # how cases are generated and what makes one non-trivial / distinct
    ASSUMPTIONS = [...]
    SUBCHECKS = [SubCheck(...), ...]

Every sub-check is a pure function ``run(ctx, case)`` of a JSON-able ``case`` dict, plus either a
Hypothesis strategy producing such dicts (``strategy(tier)``) or an enumerator (``cases(tier)``).
Replay = call ``run`` on the saved dict, no Hypothesis involved.
"""
import os
import sys
import json
import time
import math
import hashlib
import traceback
import collections

VERIF_DIR = os.path.dirname(os.path.dirname(os.path.abspath(__file__)))


class Violation(Exception):
    """The property is violated on the current case."""

    def __init__(self, clause, detail=''):
        super().__init__(f'{clause}: {detail}')
        self.clause = clause
        self.detail = detail


class HarnessError(Exception):
    """Bug of the verification machinery itself (exit 2, never a VIOLATION)."""


class _Skip(Exception):
    pass


class SubCheck:
    def __init__(self, name, run, strategy=None, cases=None, examples=(200, 2000), shards=(1, 16),
                 doc='', floors=None, shrink=True):
        assert (strategy is None) != (cases is None)
        self.name = name
        self.run = run
        self.strategy = strategy  # callable(tier)->hypothesis strategy of case dicts
        self.cases = cases  # callable(tier)->list of case dicts (finite enumeration)
        self.examples = {'quick': examples[0], 'thorough': examples[1]}
        self.shards = {'quick': shards[0], 'thorough': shards[1]}
        self.doc = doc
        self.shrink = shrink  # False for expensive (SDP) sub-checks: the shrinker would need minutes per candidate
        self.floors = floors or {}  # label -> minimum fraction of evaluations (generator health)


def _jsonable(x, depth=0):
    import numpy as np
    if isinstance(x, dict):
        return {str(k): _jsonable(v, depth + 1) for k, v in x.items()}
    if isinstance(x, (list, tuple)):
        return [_jsonable(v, depth + 1) for v in x]
    if isinstance(x, (np.integer,)):
        return int(x)
    if isinstance(x, (np.floating,)):
        return float(x)
    if isinstance(x, complex):
        return {'re': x.real, 'im': x.imag}
    if isinstance(x, np.ndarray):
        return _jsonable(x.tolist(), depth + 1)
    if isinstance(x, float):
        if math.isnan(x) or math.isinf(x):
            return repr(x)
        return x
    if isinstance(x, (int, str, bool)) or x is None:
        return x
    return repr(x)


def _shorten(case, limit=1500):
    s = json.dumps(_jsonable(case), sort_keys=True)
    if len(s) <= limit:
        return _jsonable(case)
    return {'truncated_json': s[:limit] + '...'}


class Ctx:
    """Per-(sub-check, shard) recorder handed to ``run``."""

    def __init__(self, prop, sub, tier, seed, shard=0, nshards=1, excluded=(), deadline=None):
        self.prop, self.sub, self.tier, self.seed = prop, sub, tier, seed
        self.shard, self.nshards = shard, nshards
        self.excluded = set(excluded)
        self.deadline = deadline
        self.evaluations = 0
        self.nontrivial = set()
        self.labels = collections.Counter()
        self.samples = []
        self.nt_samples = []
        self.max_resid = {}
        self.n_excluded = 0
        self.n_budget_skipped = 0
        self.inconclusive = 0
        self.inner = 0
        self.case = None
        self.klass = None
        self.failure_seen = False
        self.last_failure = None
        self.replaying = False
        self.suffix = ''  # appended to every clause name of the current case (e.g. ' [f32]')

    # -- called from run() ------------------------------------------------------------------
    def note(self, klass, desc=None, nontrivial=False, labels=()):
        """Declare the structural class of the current case (bucket key part), whether it is
        non-trivial and its distinctness descriptor. Must be called before numqi is exercised."""
        self.klass = str(klass)
        if (self.klass in self.excluded) and not self.replaying:
            self.n_excluded += 1
            raise _Skip()
        if nontrivial:
            d = json.dumps(_jsonable(desc if desc is not None else klass), sort_keys=True)
            if d not in self.nontrivial:
                self.nontrivial.add(d)
                if len(self.nt_samples) < 3:
                    self.nt_samples.append(_shorten(self.case))
            self.labels['nontrivial'] += 1
        for x in labels:
            self.labels[str(x)] += 1

    def tick(self, n=1):
        """count inner evaluations of a block case (a case that loops over a finite sub-domain)"""
        self.inner += n

    def label(self, *labels):
        for x in labels:
            self.labels[str(x)] += 1

    def require(self, cond, clause, detail=''):
        if not bool(cond):
            raise Violation(clause + self.suffix, detail if isinstance(detail, str) else repr(detail))

    def close(self, a, b, tol, clause, scale=1.0):
        """max|a-b| <= tol*scale, finite; records the observed maximum residual per clause."""
        import numpy as np
        clause = clause + self.suffix
        if a is None or b is None:
            raise Violation(clause, 'None where an array / number was expected')
        a = np.asarray(_to_np(a))
        b = np.asarray(_to_np(b))
        if a.shape != b.shape:
            try:
                np.broadcast_shapes(a.shape, b.shape)
            except ValueError:
                raise Violation(clause, f'shape mismatch {a.shape} vs {b.shape}')
        d = np.abs(a - b)
        err = float(d.max()) if d.size else 0.0
        if not math.isfinite(err):
            raise Violation(clause, 'non-finite value')
        rel = err / scale if scale > 0 else err
        if rel > self.max_resid.get(clause, 0.0):
            self.max_resid[clause] = rel
        if rel > tol:
            raise Violation(clause, f'residual {err:.3e} (scale {scale:.3g}) > tol {tol:.1e}')
        return err

    def small(self, x, tol, clause, scale=1.0):
        import numpy as np
        return self.close(x, np.zeros_like(np.asarray(_to_np(x))), tol, clause, scale)

    def finite(self, x, clause):
        import numpy as np
        x = np.asarray(_to_np(x))
        if not np.all(np.isfinite(x)):
            raise Violation(clause + self.suffix, 'non-finite value in result')

    def fresh(self, fn, clause):
        """History clause: call fn(), overwrite every writable array of its result in place, call fn() again;
        the second result must equal what the first call returned (a constructor that hands out a shared cache entry fails)."""
        import numpy as np

        def leaves(x):
            if isinstance(x, (list, tuple)):
                for y in x:
                    yield from leaves(y)
            elif isinstance(x, np.ndarray) or type(x).__name__ == 'Tensor':
                yield x
        first = list(leaves(fn()))
        snap = [np.array(_to_np(x), copy=True) for x in first]
        for x in first:
            if isinstance(x, np.ndarray):
                if x.flags.writeable and x.size:
                    x[...] = 3
            elif not x.requires_grad and x.numel():
                x.fill_(3)
        second = list(leaves(fn()))
        self.require(len(second) == len(snap), clause, 'different number of arrays in the second call')
        for a, b in zip(second, snap):
            self.close(np.asarray(_to_np(a)) * 1, b * 1, 0, clause)

    def inconclusive_case(self, why):
        self.inconclusive += 1
        self.labels['inconclusive:' + why] += 1

    # -- runner side ------------------------------------------------------------------------
    def stats(self):
        return dict(evaluations=self.evaluations + self.inner, cases=self.evaluations, nontrivial=sorted(self.nontrivial),
                    labels=dict(self.labels), samples=self.samples, nt_samples=self.nt_samples,
                    max_resid=self.max_resid, n_excluded=self.n_excluded,
                    n_budget_skipped=self.n_budget_skipped, inconclusive=self.inconclusive)


def _to_np(x):
    try:
        import torch
        if isinstance(x, torch.Tensor):
            return x.detach().cpu().numpy()
    except ImportError:
        pass
    return x


def _has_numqi_frame(tb):
    for fs in traceback.extract_tb(tb):
        fn = fs.filename.replace('\\', '/')
        if '/numqi/' in fn:
            return True
    return False


def execute(ctx, sub, case):
    """Run one case. Returns None (pass / skipped) or a failure dict. Never raises Violation."""
    import hypothesis.errors
    ctx.case = case
    ctx.klass = None
    ctx.suffix = ''
    if ctx.deadline is not None and (not ctx.failure_seen) and (not ctx.replaying) and time.time() > ctx.deadline:
        ctx.n_budget_skipped += 1
        return None
    try:
        sub.run(ctx, case)
    except _Skip:
        return 'skip'
    except Violation as e:
        fail = dict(clause=e.clause, detail=e.detail[:2000], tb='')
    except hypothesis.errors.HypothesisException:
        raise
    except HarnessError:
        raise
    except Exception as e:  # noqa
        tb = sys.exc_info()[2]
        if _has_numqi_frame(tb):
            last = traceback.extract_tb(tb)[-1]
            fail = dict(clause='raises:' + type(e).__name__, detail=(str(e)[:500] + f' @ {os.path.basename(last.filename)}:{last.name}'),
                        tb=''.join(traceback.format_exception(type(e), e, tb))[-3000:])
        else:
            raise HarnessError(f'{ctx.prop}/{ctx.sub}: exception outside numqi on case {json.dumps(_jsonable(case))[:800]}:\n'
                               + ''.join(traceback.format_exception(type(e), e, tb))) from e
    else:
        ctx.evaluations += 1
        if len(ctx.samples) < 2:
            ctx.samples.append(_shorten(case))
        return None
    ctx.evaluations += 1
    if ctx.klass is None:
        raise HarnessError(f'{ctx.prop}/{ctx.sub}: run() failed before ctx.note() was called: {fail}')
    fail.update(case=_jsonable(case), klass=ctx.klass, key=f'{ctx.sub}|{ctx.klass}|{fail["clause"]}',
                property=ctx.prop, sub=ctx.sub, seed=ctx.seed)
    ctx.failure_seen = True
    ctx.last_failure = fail
    return fail


class _Fail(Exception):
    pass


def run_hypothesis(ctx, sub, seed, max_examples, relax_filter=False):
    """One Hypothesis run of a sub-check; returns shrunk failure dict or None."""
    import hypothesis
    from hypothesis import given, settings, HealthCheck, Phase, seed as hseed
    suppress = [HealthCheck.too_slow, HealthCheck.data_too_large]
    if relax_filter:
        suppress.append(HealthCheck.filter_too_much)
    ctx.failure_seen = False
    ctx.last_failure = None

    @hseed(seed)
    @settings(max_examples=max_examples, deadline=None, database=None, report_multiple_bugs=False,
              suppress_health_check=suppress, print_blob=False,
              phases=(tuple(Phase) if sub.shrink else (Phase.explicit, Phase.reuse, Phase.generate)))
    @given(case=sub.strategy(ctx.tier))
    def test(case):
        r = execute(ctx, sub, case)
        if r == 'skip':
            hypothesis.reject()
        if r is not None:
            raise _Fail()

    try:
        test()
    except _Fail:
        return ctx.last_failure
    except (hypothesis.errors.Flaky, hypothesis.errors.FlakyFailure) as e:  # type: ignore[attr-defined]
        if ctx.last_failure is not None:
            f = dict(ctx.last_failure)
            f['detail'] = '[flaky under re-execution] ' + f['detail']
            return f
        raise HarnessError(f'{ctx.prop}/{ctx.sub}: flaky test without recorded failure: {e}')
    except BaseExceptionGroup as e:  # hypothesis may wrap
        if ctx.last_failure is not None:
            return ctx.last_failure
        raise HarnessError(f'{ctx.prop}/{ctx.sub}: {e!r}')
    except hypothesis.errors.FailedHealthCheck as e:
        raise HarnessError(f'{ctx.prop}/{ctx.sub}: generator health check failed: {e}')
    except hypothesis.errors.Unsatisfiable as e:
        if relax_filter:
            return None  # everything left is excluded
        raise HarnessError(f'{ctx.prop}/{ctx.sub}: unsatisfiable strategy: {e}')
    return None


def run_task(task):
    """Executed in a worker process: one (sub-check, shard). Returns a plain dict."""
    t0 = time.time()
    prop, subname, tier, seed, shard, nshards, excluded, budget = task
    out = dict(sub=subname, shard=shard, failures=[], error=None, stats=None, wall_s=0.0, excluded_buckets=[])
    try:
        configure_process()
        mod = load_property(prop)
        sub = {s.name: s for s in mod.SUBCHECKS}[subname]
        ctx = Ctx(prop, subname, tier, seed, shard, nshards, excluded, deadline=t0 + budget)
        if sub.cases is not None:
            seen = set()
            allcases = sub.cases(tier)
            for i, case in enumerate(allcases):
                if i % nshards != shard:
                    continue
                f = execute(ctx, sub, case)
                if isinstance(f, dict) and f['key'] not in seen and len(seen) < 20:
                    seen.add(f['key'])
                    out['failures'].append(f)
            ctx.labels['enumerated_total'] = len(allcases) if hasattr(allcases, '__len__') else -1
        else:
            n = max(1, int(sub.examples[tier] * float(os.environ.get('VF_SCALE', '1'))))
            hseed_ = (seed * 1000 + shard) if nshards > 1 else seed
            for round_ in range(5):
                f = run_hypothesis(ctx, sub, hseed_ + 7919 * round_, n, relax_filter=(round_ > 0 or len(excluded) > 0))
                if f is None:
                    break
                out['failures'].append(f)
                ctx.excluded.add(f['klass'])
                out['excluded_buckets'].append(f['klass'])
        out['stats'] = ctx.stats()
    except HarnessError as e:
        out['error'] = str(e)
    except Exception as e:  # noqa
        out['error'] = 'unexpected: ' + ''.join(traceback.format_exception(type(e), e, e.__traceback__))
    out['wall_s'] = time.time() - t0
    return out


_configured = False


def configure_process():
    """Environment for determinism; numqi import root (VF_REPO override for the mutant tool only)."""
    global _configured
    if _configured:
        return
    _configured = True
    for k in ('OMP_NUM_THREADS', 'MKL_NUM_THREADS', 'OPENBLAS_NUM_THREADS', 'NUMEXPR_NUM_THREADS'):
        os.environ[k] = '1'
    root = os.environ.get('VF_REPO')
    if root:
        p = os.path.join(root, 'python')
        if not os.path.isdir(os.path.join(p, 'numqi')):
            raise HarnessError(f'VF_REPO={root} has no python/numqi')
        sys.path.insert(0, p)
    import warnings
    warnings.filterwarnings('ignore')
    import numpy as np  # noqa
    import torch
    torch.set_num_threads(1)
    import numqi  # noqa
    if root and not os.path.abspath(numqi.__file__).startswith(os.path.abspath(root)):
        raise HarnessError('numqi imported from the wrong root: ' + numqi.__file__)


def load_property(prop):
    import importlib
    return importlib.import_module('vf.props.' + prop.lower())


# ---------------------------------------------------------------------------------------------
# known findings

def load_known(prop):
    path = os.path.join(VERIF_DIR, 'KNOWN_FINDINGS.txt')
    known = []
    if not os.path.exists(path):
        return known
    for line in open(path):
        line = line.strip()
        if not line.startswith('known:'):
            continue
        parts = line[len('known:'):].split()
        d = {}
        rest = []
        for p in parts:
            if not rest and '=' in p and p.split('=', 1)[0] in ('property', 'key', 'witness'):
                k, v = p.split('=', 1)
                d[k] = v
            else:
                rest.append(p)
        d['text'] = ' '.join(rest)
        if d.get('property') == prop:
            known.append(d)
    return known


def write_replay(fail):
    h = hashlib.sha1(json.dumps(fail['case'], sort_keys=True).encode()).hexdigest()[:10]
    rel = os.path.join('replays', fail['property'], f"{fail['sub']}-{h}.json")
    path = os.path.join(VERIF_DIR, rel)
    os.makedirs(os.path.dirname(path), exist_ok=True)
    with open(path, 'w') as fid:
        json.dump({k: fail[k] for k in ('property', 'sub', 'klass', 'clause', 'key', 'detail', 'seed', 'case', 'tb')}, fid, indent=1)
    return rel


def replay_file(prop, path):
    """Returns failure dict or None."""
    configure_process()
    mod = load_property(prop)
    with open(path if os.path.isabs(path) else os.path.join(VERIF_DIR, path)) as fid:
        z = json.load(fid)
    sub = {s.name: s for s in mod.SUBCHECKS}.get(z['sub'])
    if sub is None:
        raise HarnessError(f'replay file {path} names unknown sub-check {z["sub"]}')
    ctx = Ctx(prop, z['sub'], 'quick', z.get('seed', 0))
    ctx.replaying = True
    f = execute(ctx, sub, z['case'])
    return f if isinstance(f, dict) else None
