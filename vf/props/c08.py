"""C08 - Pauli encodings are faithful: conversions bijective, algebra exact."""
import itertools
import numpy as np
from hypothesis import strategies as st

from ..core import SubCheck
from .. import ref

PROPERTY = 'C08'
RULE = ('exhaustive: every phased Pauli (i^k, string) and every ordered pair for n=1,2 (n=3 in thorough); hypothesis: strings up to '
        'n=12 (n<=31 for index conversions) x phase, batch shapes (k,),(k,l), rand_pauli flags. Oracle: Pauli algebra on strings with the '
        'XY=iZ phase table and dense Kronecker matrices (n<=5). Non-trivial = phase != 1 or a Y present or batch ndim >= 2; distinct = '
        '(sub-check, n, string, phase) for enumerations, (n, phase, has_Y, batch shape) for generated cases.'
        ' Batched arguments are also handed over Fortran-ordered / strided / read-only / with negative strides; at the edge of the index range (4^n-1, 4^n, 4^n+1, -1) an accepted index must come back from the inverse conversion.'
        ' An operator object multiplied with itself; Hermiticity flags as np.bool_ and 0/1; sign arrays that broadcast against the batch; second-call clause for the integer conversions.')
RULE += ' Batches of strings are also held in a wider unicode dtype than the strings need, and batches of indices in uint8 / int16 / int32 arrays (values < 4^n).'
ASSUMPTIONS = ['dense matrices are compared exactly up to 1e-12 (entries are in {0,+-1,+-i})',
               'index conversions are exercised up to n=31 (index < 4^31) as the statement bounds them']


def _nq():
    import numqi
    return numqi


def _check_single(ctx, k, s, dense=True):
    nq = _nq()
    n = len(s)
    sign = ref.PHASE[k]
    f2_ref = np.array(ref.pauli_to_F2((k, s)), dtype=np.uint8)
    f2 = nq.gate.pauli_str_to_F2(s, sign)
    ctx.require(f2.dtype == np.uint8 and f2.tolist() == f2_ref.tolist(), 'str_to_F2', f'{f2.tolist()} vs {f2_ref.tolist()}')
    s1, sg1 = nq.gate.pauli_F2_to_str(f2_ref)
    ctx.require(s1 == s and abs(sg1 - sign) < 1e-12, 'F2_to_str', f'{(s1, sg1)} vs {(s, sign)}')
    idx = ref.pauli_index(s)
    ctx.require(nq.gate.pauli_str_to_index(s) == idx, 'str_to_index')
    ctx.require(nq.gate.pauli_index_to_str(idx, n) == s, 'index_to_str')
    f2i = nq.gate.pauli_index_to_F2(idx, n, with_sign=True)
    ctx.require(f2i.tolist() == ref.pauli_to_F2((0, s)), 'index_to_F2', f'{f2i.tolist()}')
    f2i = nq.gate.pauli_index_to_F2(idx, n, with_sign=False)
    ctx.require(f2i.tolist() == ref.pauli_to_F2((0, s))[2:], 'index_to_F2_nosign')
    ctx.require(int(nq.gate.pauli_F2_to_index(f2_ref, with_sign=True)) == idx, 'F2_to_index')
    ctx.require(int(nq.gate.pauli_F2_to_index(f2_ref[2:], with_sign=False)) == idx, 'F2_to_index_nosign')
    op = nq.gate.PauliOperator.from_F2(f2_ref.copy())
    ctx.require(op.str_ == s and abs(op.sign - sign) < 1e-12 and len(op) == n, 'PauliOperator.str_/sign')
    op2 = nq.gate.PauliOperator.from_str(s, sign)
    ctx.require(op2.F2.tolist() == f2_ref.tolist(), 'PauliOperator.from_str')
    op3 = nq.gate.PauliOperator.from_index(idx, n)
    ctx.require(op3.F2.tolist() == ref.pauli_to_F2((0, s)), 'PauliOperator.from_index')
    # the caller owns what a conversion returned: editing it (e.g. flipping a phase bit to build -P) must not change later conversions
    FR = 'a second conversion is not affected by editing the array returned by the first'
    ctx.fresh(lambda: nq.gate.pauli_index_to_F2(idx, n, with_sign=True), FR + ' (index_to_F2)')
    ctx.fresh(lambda: nq.gate.pauli_index_to_F2(idx, n, with_sign=False), FR + ' (index_to_F2 nosign)')
    ctx.fresh(lambda: nq.gate.pauli_str_to_F2(s, sign), FR + ' (str_to_F2)')
    ctx.fresh(lambda: nq.gate.PauliOperator.from_index(idx, n).F2, FR + ' (from_index)')
    ctx.fresh(lambda: nq.gate.PauliOperator.from_str(s, sign).F2, FR + ' (from_str)')
    inv = op.inverse()
    ctx.require(ref.pauli_from_F2(inv.F2) == ref.pauli_inv((k, s)), 'inverse', f'{inv.F2.tolist()}')
    ctx.require(op.F2.tolist() == f2_ref.tolist(), 'inverse mutates operand')
    if dense:
        D = ref.pauli_dense((k, s))
        ctx.close(ref.pauli_from_F2_dense(f2_ref), D, 1e-12, 'ref self-consistency')
        ctx.close(op.full_matrix, D, 1e-12, 'full_matrix')
        back = nq.gate.PauliOperator.from_full_matrix(D.copy())
        ctx.require(back.F2.tolist() == f2_ref.tolist(), 'from_full_matrix', f'{back.F2.tolist()} vs {f2_ref.tolist()}')
        npl = [ref.PAULI[c] for c in s]
        op4 = nq.gate.PauliOperator.from_np_list(npl, sign)
        ctx.require(op4.F2.tolist() == f2_ref.tolist(), 'from_np_list')
        ctx.close(ref.kron(*op.np_list) * op.sign, D, 1e-12, 'np_list')
        ctx.close(inv.full_matrix @ D, np.eye(2 ** n), 1e-12, 'inverse dense')


def run_exh_single(ctx, case):
    k, s = case['k'], case['s']
    ctx.note(klass=f'n={len(s)}', desc=['single', s, k], nontrivial=(k != 0 or 'Y' in s))
    _check_single(ctx, k, s, dense=True)
    if k == 0 and set(s) == {'Z'}:
        # the edge of the index range (once per n): every index the conversion ACCEPTS must come back from the inverse conversion (injectivity);
        # an index outside 0..4^n-1 may only be rejected
        nq = _nq()
        n = len(s)
        for i in (4 ** n - 1, 4 ** n, 4 ** n + 1, -1, 2 * 4 ** n):
            for fn in ('str', 'F2', 'op'):
                try:
                    if fn == 'str':
                        back = nq.gate.pauli_str_to_index(nq.gate.pauli_index_to_str(i, n))
                    elif fn == 'F2':
                        back = nq.gate.pauli_F2_to_index(nq.gate.pauli_index_to_F2(i, n, with_sign=True), with_sign=True)
                    else:
                        back = nq.gate.pauli_str_to_index(nq.gate.PauliOperator.from_index(i, n).str_)
                except (AssertionError, ValueError, IndexError, KeyError, OverflowError):
                    ctx.require(not (0 <= i < 4 ** n), 'a valid index is not rejected', f'i={i} n={n} via {fn}')
                    continue
                ctx.require(int(back) == i, 'an index accepted by index->' + fn + ' comes back from the inverse conversion (index range edge)', f'i={i} n={n} -> {int(back)}')
        ctx.label('index range edge')


def cases_exh_single(tier):
    ns = (1, 2, 3) if tier == 'quick' else (1, 2, 3, 4)
    return [dict(k=k, s=s) for n in ns for (k, s) in ref.all_phased_paulis(n)]


def run_exh_pairs(ctx, case):
    nq = _nq()
    n = case['n']
    allp = ref.all_phased_paulis(n)
    a = allp[case['ia']]
    ctx.note(klass=f'n={n}', desc=['pairs', n, case['ia']], nontrivial=(a[0] != 0 or 'Y' in a[1]))
    A = nq.gate.PauliOperator.from_F2(np.array(ref.pauli_to_F2(a), dtype=np.uint8))
    DA = ref.pauli_dense(a) if n <= 2 else None
    # the same OBJECT on both sides (an all-pairs loop over a list of operators reaches p @ p)
    sq = A @ A
    ctx.require(ref.pauli_from_F2(sq.F2) == ref.pauli_mul(a, a), 'matmul of an operator object with itself', f'{a}^2 -> {ref.pauli_from_F2(sq.F2)} want {ref.pauli_mul(a, a)}')
    ctx.require(bool(A.commutate_with(A)), 'an operator commutes with itself (same object)')
    for b in allp:
        B = nq.gate.PauliOperator.from_F2(np.array(ref.pauli_to_F2(b), dtype=np.uint8))
        c = A @ B
        want = ref.pauli_mul(a, b)
        ctx.require(ref.pauli_from_F2(c.F2) == want, 'matmul', f'{a}*{b} -> {ref.pauli_from_F2(c.F2)} want {want}')
        ctx.require(bool(A.commutate_with(B)) == ref.pauli_commute(a, b), 'commutate_with', f'{a},{b}')
        if DA is not None:
            ctx.close(c.full_matrix, DA @ ref.pauli_dense(b), 1e-12, 'matmul dense')
        ctx.tick()


def cases_exh_pairs(tier):
    ns = (1, 2) if tier == 'quick' else (1, 2, 3)
    return [dict(n=n, ia=i) for n in ns for i in range(4 ** (n + 1))]


@st.composite
def _strat_rand(draw, tier='quick'):
    nmax = 12
    n = draw(st.integers(1, nmax))
    s = ''.join(draw(st.lists(st.sampled_from('IXYZ'), min_size=n, max_size=n)))
    k = draw(st.integers(0, 3))
    t = ''.join(draw(st.lists(st.sampled_from('IXYZ'), min_size=n, max_size=n)))
    l = draw(st.integers(0, 3))
    return dict(a=[k, s], b=[l, t])


def run_rand_ops(ctx, case):
    nq = _nq()
    a = (case['a'][0], case['a'][1])
    b = (case['b'][0], case['b'][1])
    n = len(a[1])
    ctx.note(klass=f'n={n}', desc=['rand', n, a[0], 'Y' in a[1]], nontrivial=(a[0] != 0 or 'Y' in a[1]), labels=[f'n={n}'])
    _check_single(ctx, a[0], a[1], dense=(n <= 5))
    A = nq.gate.PauliOperator.from_str(a[1], ref.PHASE[a[0]])
    B = nq.gate.PauliOperator.from_str(b[1], ref.PHASE[b[0]])
    c = A @ B
    ctx.require(ref.pauli_from_F2(c.F2) == ref.pauli_mul(a, b), 'matmul', f'{a}*{b}')
    ctx.require(bool(A.commutate_with(B)) == ref.pauli_commute(a, b), 'commutate_with', f'{a},{b}')
    ai = A.inverse()
    e = A @ ai
    ctx.require(ref.pauli_from_F2(e.F2) == (0, 'I' * n), 'A@inverse(A)=I')
    e = ai @ A
    ctx.require(ref.pauli_from_F2(e.F2) == (0, 'I' * n), 'inverse(A)@A=I')
    if n <= 5:
        ctx.close(c.full_matrix, ref.pauli_dense(a) @ ref.pauli_dense(b), 1e-12, 'matmul dense')


@st.composite
def _strat_batch(draw, tier='quick'):
    n = draw(st.one_of(st.integers(1, 8), st.integers(9, 31)))
    shape = draw(st.sampled_from([[1], [3], [7], [2, 3], [1, 1], [3, 1, 2]]))
    cnt = int(np.prod(shape))
    edge = draw(st.booleans())
    strs = []
    for i in range(cnt):
        if edge and i == 0:
            strs.append(draw(st.sampled_from(['Z', 'I', 'Y', 'X'])) * n)
        else:
            strs.append(''.join(draw(st.lists(st.sampled_from('IXYZ'), min_size=n, max_size=n))))
    ks = draw(st.lists(st.integers(0, 3), min_size=cnt, max_size=cnt))
    return dict(n=n, shape=shape, strs=strs, ks=ks)


def run_batch(ctx, case):
    nq = _nq()
    n, shape, strs, ks = case['n'], tuple(case['shape']), case['strs'], case['ks']
    ctx.note(klass=f'ndim={len(shape)}', desc=['batch', n > 8, list(shape)], nontrivial=(len(shape) >= 2 or any(ks)),
             labels=[f'ndim={len(shape)}', 'n>16' if n > 16 else 'n<=16'])
    LAY = ['C', 'F', 'strided', 'readonly', 'reversed']
    layout = LAY[(sum(ks) + n + 3 * len(strs) + sum(ord(c) for c in strs[0])) % len(LAY)]
    ctx.label('layout=' + layout)
    L = lambda a: ref.with_layout(a, layout)  # noqa: E731  same values, other strides: batched conversions must not depend on memory order
    arr_s = L(np.array(strs, dtype=f'U{n}').reshape(shape))
    signs = L(np.array([ref.PHASE[k] for k in ks]).reshape(shape))
    idx_ref = [ref.pauli_index(s) for s in strs]
    f2_ref = np.array([ref.pauli_to_F2((k, s)) for k, s in zip(ks, strs)], dtype=np.uint8).reshape(shape + (2 * n + 2,))
    f2_ref0 = np.array([ref.pauli_to_F2((0, s)) for s in strs], dtype=np.uint8).reshape(shape + (2 * n + 2,))
    # str <-> index
    idx = nq.gate.pauli_str_to_index(arr_s)
    ctx.require(idx.shape == shape and [int(x) for x in idx.reshape(-1)] == idx_ref, 'batch str_to_index')
    # the same strings in a wider unicode dtype (a table column declared for longer strings): numpy pads with NUL, the strings are the same strings
    idx_w = nq.gate.pauli_str_to_index(L(np.array(strs, dtype=f'U{n + 1 + n % 3}').reshape(shape)))
    ctx.require(np.shape(idx_w) == shape and [int(x) for x in np.asarray(idx_w).reshape(-1)] == idx_ref, 'batch str_to_index: strings held in a wider unicode dtype',
                f'{np.asarray(idx_w).reshape(-1).tolist()} vs {idx_ref}')
    # index arrays in a narrow integer dtype (every value is a valid index < 4^n; the dtype has fewer than 2n bits when n >= 5 resp. n >= 9)
    for dt_, bits_ in ((np.uint8, 8), (np.int16, 15), (np.int32, 31)):
        vals = [i % min(2 ** bits_, 4 ** n) for i in idx_ref]
        nar = L(np.array(vals, dtype=dt_).reshape(shape))
        wide = np.array(vals, dtype=np.uint64).reshape(shape)
        for ws in (True, False):
            ctx.close(nq.gate.pauli_index_to_F2(nar, n, with_sign=ws) * 1, nq.gate.pauli_index_to_F2(wide, n, with_sign=ws) * 1, 0,
                      'batch index_to_F2: a narrow integer dtype gives the same bits as uint64')
        sn = nq.gate.pauli_index_to_str(nar, n)
        ctx.require(np.shape(sn) == shape and np.asarray(sn).reshape(-1).tolist() == np.asarray(nq.gate.pauli_index_to_str(wide, n)).reshape(-1).tolist(),
                    'batch index_to_str: a narrow integer dtype gives the same strings as uint64')
    idx_arr = L(np.array(idx_ref, dtype=np.uint64).reshape(shape))
    s_back = nq.gate.pauli_index_to_str(idx_arr, n)
    ctx.require(s_back.shape == shape and s_back.reshape(-1).tolist() == strs, 'batch index_to_str')
    # index <-> F2
    f2 = nq.gate.pauli_index_to_F2(idx_arr, n, with_sign=True)
    ctx.require(f2.shape == f2_ref0.shape and np.array_equal(f2, f2_ref0), 'batch index_to_F2')
    f2 = nq.gate.pauli_index_to_F2(idx_arr, n, with_sign=False)
    ctx.require(np.array_equal(f2, f2_ref0[..., 2:]), 'batch index_to_F2 nosign')
    f2_c = f2_ref
    f2_ref = L(f2_ref)
    ib = nq.gate.pauli_F2_to_index(f2_ref, with_sign=True)
    ctx.require(np.shape(ib) == shape and [int(x) for x in np.asarray(ib).reshape(-1)] == idx_ref, 'batch F2_to_index',
                f'{np.asarray(ib).reshape(-1).tolist()} vs {idx_ref}')
    ib = nq.gate.pauli_F2_to_index(L(np.ascontiguousarray(f2_ref[..., 2:])), with_sign=False)
    ctx.require([int(x) for x in np.asarray(ib).reshape(-1)] == idx_ref, 'batch F2_to_index nosign')
    # str <-> F2
    f2 = nq.gate.pauli_str_to_F2(arr_s, signs)
    ctx.require(f2.shape == f2_ref.shape and np.array_equal(f2, f2_ref), 'batch str_to_F2')
    # signs that broadcast against the batch of strings: one phase for all, one per column (l,), one per row (k,1)
    if len(shape) == 2:
        k_, l_ = shape
        for kind_, sg in (('scalar', np.array(ref.PHASE[ks[0]])), ('per column', np.array([ref.PHASE[ks[j]] for j in range(l_)])), ('per row', np.array([ref.PHASE[ks[(i * l_) % len(ks)]] for i in range(k_)]).reshape(k_, 1))):
            full = np.broadcast_to(sg, shape)
            phase_k = lambda z: [kk for kk, vv in ref.PHASE.items() if abs(vv - z) < 1e-12][0]  # noqa: E731
            want_b = np.array([ref.pauli_to_F2((phase_k(full[i, j]), strs[i * l_ + j])) for i in range(k_) for j in range(l_)], dtype=np.uint8).reshape(shape + (2 * n + 2,))
            got_b = nq.gate.pauli_str_to_F2(arr_s, sg)
            ctx.require(got_b.shape == want_b.shape and np.array_equal(got_b, want_b), f'batch str_to_F2 with a broadcast sign array ({kind_})')
        ctx.label('broadcast signs')
    s2, sg2 = nq.gate.pauli_F2_to_str(f2_ref)
    ctx.require(isinstance(s2, np.ndarray) and s2.shape == shape and np.shape(sg2) == shape, 'batch F2_to_str keeps the batch shape (also for a batch of one)', f'{type(s2).__name__} {np.shape(s2)} vs {shape}')
    ctx.require(s2.shape == shape and s2.reshape(-1).tolist() == strs, 'batch F2_to_str string')
    ctx.close(sg2, signs, 1e-12, 'batch F2_to_str sign')
    ctx.require(np.array_equal(f2_ref, f2_c) and np.array_equal(idx_arr.reshape(-1), np.array(idx_ref, dtype=np.uint64)) and arr_s.reshape(-1).tolist() == strs,
                'batched conversions do not modify their arguments')
    # element-wise equality with the single-item API
    for j, (k, s) in enumerate(zip(ks, strs)):
        one = nq.gate.pauli_str_to_F2(s, ref.PHASE[k])
        ctx.require(one.tolist() == f2_ref.reshape(-1, 2 * n + 2)[j].tolist(), 'single != batched element')


@st.composite
def _strat_randpauli(draw, tier='quick'):
    return dict(n=draw(st.integers(1, 10)), flag=draw(st.sampled_from([None, True, False])), seed=draw(st.integers(0, 2 ** 32 - 1)))


def run_randpauli(ctx, case):
    nq = _nq()
    n, flag, seed = case['n'], case['flag'], case['seed']
    ctx.note(klass=f'flag={flag}', desc=['randpauli', n, flag], nontrivial=flag is not None, labels=[f'flag={flag}'])
    # the flag also as it comes out of numpy code (np.bool_) or as 0/1: the function accepts every value equal to True / False
    flag_arg = flag
    if flag is not None:
        form = seed % 3
        flag_arg = [flag, np.bool_(flag), int(flag)][form]
        ctx.label(['flag as bool', 'flag as np.bool_', 'flag as 0/1'][form])
    p = nq.random.rand_pauli(n, is_hermitian=flag_arg, seed=seed)
    ctx.require(isinstance(p, nq.gate.PauliOperator) and p.num_qubit == n and p.F2.dtype == np.uint8 and set(p.F2.tolist()) <= {0, 1},
                'rand_pauli returns PauliOperator')
    k, s = ref.pauli_from_F2(p.F2)
    herm = (k % 2 == 0)  # i^k * hermitian string
    if flag is True:
        ctx.require(herm, 'hermitian flag', f'{k},{s}')
    if flag is False:
        ctx.require(not herm, 'anti-hermitian flag', f'{k},{s}')
    if n <= 4:
        D = p.full_matrix
        if herm:
            ctx.close(D, D.conj().T, 1e-12, 'dense hermitian')
        else:
            ctx.close(D, -D.conj().T, 1e-12, 'dense anti-hermitian')
    ctx.label('hermitian' if herm else 'antihermitian')


SUBCHECKS = [
    SubCheck('exh_single', run_exh_single, cases=cases_exh_single, shards=(4, 16),
             doc='all phased Paulis n<=3 (quick) / n<=4 (thorough): every conversion path and dense matrix'),
    SubCheck('exh_pairs', run_exh_pairs, cases=cases_exh_pairs, shards=(4, 16),
             doc='all ordered pairs n<=2 (quick) / n<=3 (thorough): product, commutation vs string algebra and dense'),
    SubCheck('rand_ops', run_rand_ops, strategy=_strat_rand, examples=(600, 4000)),
    SubCheck('batch', run_batch, strategy=_strat_batch, examples=(400, 3000), floors={'ndim=2': 0.1, 'layout=F': 0.08, 'layout=reversed': 0.08}),
    SubCheck('rand_pauli', run_randpauli, strategy=_strat_randpauli, examples=(500, 4000)),
]
