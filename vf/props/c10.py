"""C10 - random generators return valid objects and are reproducible from a seed."""
import math
import random
import itertools
import numpy as np
from hypothesis import strategies as st

from ..core import SubCheck, HarnessError
from .. import ref

PROPERTY = 'C10'
RULE = ('hypothesis: every public rand_* / get_*_rng of numqi.random (discovered with dir(); an uncovered name is a harness error) with a table of admissible argument '
        'combinations covering every optional branch, an integer seed, and a generated history of "noise" operations on the global numpy / python / torch generators and '
        'on unseeded / differently seeded numqi.random calls executed between two identical seeded calls; plus the other seed-taking APIs (measure_quantum_vector, '
        'Circuit.measure, CliffordCircuit(seed).random_*, minimize, minimize_adam, get_purification, CHABoundaryBagging.solve). Oracle: validity predicate per generator; '
        'np.array_equal (bit identity) between the two calls. Non-trivial = at least one global-generator operation between the calls and a non-default optional branch; '
        'distinct = (function, branch signature, noise signature).'
        ' Kraus/Choi/POVM generators (inverse square root of a random Gram matrix): a miss of the tight tolerance is tolerated only below the structural threshold 1e-2 and if 3 of 4 neighbouring seeds pass the tight tolerance.'
        ' numpy integer seeds act like the equal int; measurement repeated on the same array object and after the returned bit list was edited.')
ASSUMPTIONS = ['distributional quality (Haar-ness) is not claimed and not tested',
               'rank statements: rank <= k is required, rank == k only labelled (it holds generically)',
               'CHABoundaryBagging.solve may raise cvxpy.SolverError in this image (no ECOS): counted inconclusive, only returned values are judged',
               'seed 0 is an integer seed like any other']

NOISE = ['np.seed', 'np.rand', 'py.random', 'py.seed', 'torch.rand', 'torch.seed', 'nq.unseeded', 'nq.other_seed', 'np.default_rng']


def _nq():
    import numqi
    return numqi


def do_noise(ops):
    import torch
    nq = _nq()
    for op, v in ops:
        if op == 'np.seed':
            np.random.seed(v % (2 ** 32))
        elif op == 'np.rand':
            np.random.rand(1 + v % 5)
        elif op == 'py.random':
            random.random()
        elif op == 'py.seed':
            random.seed(v)
        elif op == 'torch.rand':
            torch.rand(1 + v % 3)
        elif op == 'torch.seed':
            torch.manual_seed(v)
        elif op == 'nq.unseeded':
            nq.random.rand_haar_state(3)
            nq.random.rand_F2(4)
            nq.random.rand_SpF2(1)
        elif op == 'nq.other_seed':
            nq.random.rand_density_matrix(3, seed=v)
            nq.random.rand_SpF2(2, seed=v)
        else:
            np.random.default_rng().normal(size=3)


def _herm(ctx, M, what, tol=1e-10):
    ctx.close(M, np.conj(np.swapaxes(M, -1, -2)), tol, f'{what}: Hermitian')


def _dm(ctx, rho, what, rank=None):
    rho = np.asarray(rho)
    _herm(ctx, rho, what)
    ctx.close(np.trace(rho), 1, 1e-10, f'{what}: trace one')
    ev = np.linalg.eigvalsh((rho + rho.conj().T) / 2)
    ctx.require(ev.min() > -1e-10, f'{what}: positive semidefinite', f'{ev.min()}')
    if rank is not None:
        rk = int((ev > 1e-9).sum())
        ctx.require(rk <= rank, f'{what}: rank at most the requested rank', f'{rk} > {rank}')
        ctx.label('rank==k' if rk == rank else 'rank<k')


# ---------------------------------------------------------------------------------------------------------------------------------------------
# table: name -> (strategy of kwargs, call(kwargs, seed) -> result, validate(ctx, kwargs, result), arrays(result) -> list of arrays for bit comparison)
def _arrs(x):
    nq = _nq()
    if isinstance(x, (tuple, list)):
        out = []
        for y in x:
            out += _arrs(y)
        return out
    if isinstance(x, nq.gate.PauliOperator):
        return [x.F2]
    return [np.asarray(x)]


def table():
    nq = _nq()
    R = nq.random
    T = {}

    def add(name, strat, call, validate):
        T[name] = (strat, call, validate)

    # --- states / unitaries
    def v_haar_state(ctx, k, x):
        ctx.require(x.shape == (k['dim'],), 'rand_haar_state: shape')
        ctx.require(np.iscomplexobj(x) == k['tag_complex'], 'rand_haar_state: field follows tag_complex')
        ctx.close(np.linalg.norm(x), 1, 1e-12, 'rand_haar_state: unit norm')
    add('rand_haar_state', st.fixed_dictionaries(dict(dim=st.integers(1, 8), tag_complex=st.booleans())),
        lambda k, s: R.rand_haar_state(k['dim'], tag_complex=k['tag_complex'], seed=s), v_haar_state)

    def v_unitary(ctx, k, x):
        d = k['dim']
        ctx.require(x.shape == (d, d), 'rand_haar_unitary: shape')
        ctx.close(x @ x.conj().T, np.eye(d), 1e-10, 'rand_haar_unitary: unitary')
    add('rand_haar_unitary', st.fixed_dictionaries(dict(dim=st.integers(1, 6))), lambda k, s: R.rand_haar_unitary(k['dim'], seed=s), v_unitary)

    def v_so(ctx, k, x):
        d, b = k['dim'], k['batch_size']
        ctx.require(x.shape == ((d, d) if b is None else (b, d, d)), 'rand_special_orthogonal_matrix: shape', f'{x.shape}')
        ctx.require(np.iscomplexobj(x) == k['tag_complex'], 'rand_special_orthogonal_matrix: field')
        X = x.reshape(-1, d, d)
        ctx.close(X @ X.conj().transpose(0, 2, 1), np.broadcast_to(np.eye(d), X.shape), 1e-10, 'rand_special_orthogonal_matrix: unitary')
        ctx.close(np.linalg.det(X), np.ones(len(X)), 1e-9, 'rand_special_orthogonal_matrix: unit determinant')
    add('rand_special_orthogonal_matrix', st.fixed_dictionaries(dict(dim=st.integers(2, 5), batch_size=st.sampled_from([None, 1, 3]), tag_complex=st.booleans())),
        lambda k, s: R.rand_special_orthogonal_matrix(k['dim'], batch_size=k['batch_size'], tag_complex=k['tag_complex'], seed=s), v_so)

    @st.composite
    def s_dm(draw):
        d = draw(st.integers(2, 6))
        return dict(dim=d, k=draw(st.one_of(st.none(), st.integers(1, d))), kind=draw(st.sampled_from(['haar', 'bures'])))
    add('rand_density_matrix', s_dm(), lambda k, s: R.rand_density_matrix(k['dim'], k=k['k'], kind=k['kind'], seed=s),
        lambda ctx, k, x: (ctx.require(x.shape == (k['dim'], k['dim']), 'rand_density_matrix: shape'), _dm(ctx, x, 'rand_density_matrix', k['k'] or k['dim'])))

    @st.composite
    def s_kraus(draw):
        din, dout = draw(st.integers(1, 4)), draw(st.integers(1, 4))
        lo = -(-din // dout)
        return dict(num_term=draw(st.integers(lo, din * dout + 1)), dim_in=din, dim_out=dout, tag_complex=draw(st.booleans()))

    def v_kraus(ctx, k, x, tol=1e-9):
        ctx.require(x.shape == (k['num_term'], k['dim_out'], k['dim_in']), 'rand_kraus_op: shape')
        ctx.require(np.iscomplexobj(x) == k['tag_complex'], 'rand_kraus_op: field follows tag_complex')
        ctx.close(np.einsum('sai,saj->ij', x.conj(), x), np.eye(k['dim_in']), tol, 'rand_kraus_op: complete Kraus set')
    add('rand_kraus_op', s_kraus(), lambda k, s: R.rand_kraus_op(k['num_term'], k['dim_in'], k['dim_out'], tag_complex=k['tag_complex'], seed=s), v_kraus)

    @st.composite
    def s_choi(draw):
        din, dout = draw(st.integers(1, 4)), draw(st.integers(1, 4))
        lo = -(-din // dout)
        return dict(dim_in=din, dim_out=dout, rank=draw(st.one_of(st.none(), st.integers(lo, din * dout))))

    def v_choi(ctx, k, x, tol=1e-9):
        din, dout = k['dim_in'], k['dim_out']
        ctx.require(x.shape == (din * dout, din * dout), 'rand_choi_op: shape')
        _herm(ctx, x, 'rand_choi_op', tol)
        ev = np.linalg.eigvalsh((x + x.conj().T) / 2)
        ctx.require(ev.min() > -tol, 'rand_choi_op: positive')
        ctx.close(np.einsum('iaja->ij', x.reshape(din, dout, din, dout)), np.eye(din), tol, 'rand_choi_op: trace preserving (Tr_out = I)')
        if k['rank'] is not None:
            ctx.require(int((ev > 1e-8).sum()) <= k['rank'], 'rand_choi_op: rank at most the requested rank', f'{int((ev > 1e-8).sum())} vs {k["rank"]}')
    add('rand_choi_op', s_choi(), lambda k, s: R.rand_choi_op(k['dim_in'], k['dim_out'], rank=k['rank'], seed=s), v_choi)

    def v_povm(ctx, k, x, tol=1e-9):
        d, n = k['dim'], k['num_term']
        ctx.require(x.shape == (n, d, d), 'rand_povm: shape')
        _herm(ctx, x, 'rand_povm', tol)
        ctx.require(min(np.linalg.eigvalsh((e + e.conj().T) / 2).min() for e in x) > -tol, 'rand_povm: elements positive')
        ctx.close(x.sum(axis=0), np.eye(d), tol, 'rand_povm: resolves the identity')
    add('rand_povm', st.fixed_dictionaries(dict(dim=st.integers(1, 5), num_term=st.integers(1, 6))), lambda k, s: R.rand_povm(k['dim'], k['num_term'], seed=s), v_povm)

    @st.composite
    def s_bip(draw):
        dA = draw(st.integers(1, 4))
        dB = draw(st.one_of(st.none(), st.integers(1, 4)))
        m = min(dA, dB if dB is not None else dA)
        return dict(dimA=dA, dimB=dB, k=draw(st.one_of(st.none(), st.integers(1, m))), return_dm=draw(st.booleans()))

    def v_bip(ctx, k, x):
        dA = k['dimA']
        dB = k['dimB'] if k['dimB'] is not None else dA
        if k['return_dm']:
            ctx.require(x.shape == (dA * dB, dA * dB), 'rand_bipartite_state: shape')
            _dm(ctx, x, 'rand_bipartite_state', 1)
            w, v = np.linalg.eigh(x)
            psi = v[:, -1]
        else:
            ctx.require(x.shape == (dA * dB,), 'rand_bipartite_state: shape')
            ctx.close(np.linalg.norm(x), 1, 1e-10, 'rand_bipartite_state: unit norm')
            psi = x
        if k['k'] is not None:
            sv = np.linalg.svd(psi.reshape(dA, dB), compute_uv=False)
            ctx.require(int((sv > 1e-9).sum()) <= k['k'], 'rand_bipartite_state: Schmidt rank at most k', f'{sv}')
    add('rand_bipartite_state', s_bip(), lambda k, s: R.rand_bipartite_state(k['dimA'], k['dimB'], k=k['k'], seed=s, return_dm=k['return_dm']), v_bip)

    def v_sep(ctx, k, x):
        dA = k['dimA']
        dB = k['dimB'] if k['dimB'] is not None else dA
        ctx.require(x.shape == (dA * dB, dA * dB), 'rand_separable_dm: shape')
        _dm(ctx, x, 'rand_separable_dm', k['k'] if k['pure_term'] else None)
        ctx.require(ref.min_eig(ref.partial_transpose(x, [dA, dB], [1])) > -1e-10, 'rand_separable_dm: PPT (separable for 2x2, 2x3)')
    add('rand_separable_dm', st.fixed_dictionaries(dict(dimA=st.integers(2, 3), dimB=st.sampled_from([None, 2, 3]), k=st.integers(1, 5), pure_term=st.booleans())),
        lambda k, s: R.rand_separable_dm(k['dimA'], k['dimB'], k=k['k'], seed=s, pure_term=k['pure_term']), v_sep)

    def v_herm(ctx, k, x):
        d = k['d']
        ctx.require(x.shape == (d, d), 'rand_hermitian_matrix: shape')
        ctx.require(np.iscomplexobj(x) == k['tag_complex'], 'rand_hermitian_matrix: field follows tag_complex')
        _herm(ctx, x, 'rand_hermitian_matrix', 1e-9 * max(1.0, np.abs(x).max()))
        if k['eig'] is not None:
            ev = np.linalg.eigvalsh((x + x.conj().T) / 2)
            lo, hi = k['eig']
            ctx.require(ev.min() >= lo - 1e-9 * max(1, abs(lo)) and ev.max() <= hi + 1e-9 * max(1, abs(hi)), 'rand_hermitian_matrix: spectrum in the requested range', f'{ev} vs {k["eig"]}')
    add('rand_hermitian_matrix', st.fixed_dictionaries(dict(d=st.integers(2, 5), eig=st.sampled_from([None, [0.0, 1.0], [-2.0, -1.0], [3.0, 3.5], [-1.0, 4.0]]), tag_complex=st.booleans())),
        lambda k, s: R.rand_hermitian_matrix(k['d'], eig=(None if k['eig'] is None else tuple(k['eig'])), tag_complex=k['tag_complex'], seed=s), v_herm)

    def v_cms(ctx, k, x):
        d, n = k['dim_in'], k['num_term']
        ctx.require(x.shape == (n, d, d), 'rand_channel_matrix_space: shape')
        ctx.close(x[0], np.eye(d), 0, 'rand_channel_matrix_space: contains the identity')
        _herm(ctx, x, 'rand_channel_matrix_space', 1e-12 * max(1.0, np.abs(x).max()))
    add('rand_channel_matrix_space', st.fixed_dictionaries(dict(dim_in=st.integers(1, 4), num_term=st.integers(1, 5))),
        lambda k, s: R.rand_channel_matrix_space(k['dim_in'], k['num_term'], seed=s), v_cms)

    @st.composite
    def s_qcms(draw):
        d = draw(st.integers(2, 4))
        if draw(st.booleans()):
            return dict(dim_in=d, num_hermite=draw(st.integers(1, d * d)))
        N1 = d * (d - 1) // 2
        return dict(dim_in=d, num_hermite=[draw(st.integers(1, d * d - N1)), draw(st.integers(0, N1))])

    def v_qcms(ctx, k, x):
        d = k['dim_in']
        nh = k['num_hermite']
        cnt = nh if isinstance(nh, int) else nh[0] + nh[1]
        ctx.require(x.shape == (cnt, d, d), 'rand_quantum_channel_matrix_subspace: shape', f'{x.shape} vs {cnt}')
        ctx.close(x[0], np.eye(d), 1e-12, 'rand_quantum_channel_matrix_subspace: contains the identity')
        if isinstance(nh, int):
            _herm(ctx, x, 'rand_quantum_channel_matrix_subspace')
        else:
            ctx.require(not np.iscomplexobj(x), 'rand_quantum_channel_matrix_subspace: real for the (sym, antisym) form')
            ctx.close(x[:nh[0]], np.swapaxes(x[:nh[0]], 1, 2), 1e-10, 'rand_quantum_channel_matrix_subspace: symmetric part')
            ctx.close(x[nh[0]:], -np.swapaxes(x[nh[0]:], 1, 2), 1e-10, 'rand_quantum_channel_matrix_subspace: antisymmetric part')
        G = np.einsum('aij,bij->ab', x.conj(), x)
        ctx.require(np.linalg.matrix_rank(G, tol=1e-8) == cnt, 'rand_quantum_channel_matrix_subspace: linearly independent')
        ctx.small(G - np.diag(np.diag(G)), 1e-9, 'rand_quantum_channel_matrix_subspace: mutually orthogonal')
    add('rand_quantum_channel_matrix_subspace', s_qcms(),
        lambda k, s: R.rand_quantum_channel_matrix_subspace(k['dim_in'], k['num_hermite'] if isinstance(k['num_hermite'], int) else tuple(k['num_hermite']), seed=s), v_qcms)

    def v_abk(ctx, k, x):
        dA, dB, kk = k['dimA'], k['dimB'], k['kext']
        D = dA * dB ** kk
        ctx.require(x.shape == (D, D), 'rand_ABk_density_matrix: shape')
        _dm(ctx, x, 'rand_ABk_density_matrix')
        T = x.reshape([dA] + [dB] * kk + [dA] + [dB] * kk)
        for i in range(kk):
            for j in range(i + 1, kk):
                p = list(range(2 * kk + 2))
                p[1 + i], p[1 + j] = p[1 + j], p[1 + i]
                p[kk + 2 + i], p[kk + 2 + j] = p[kk + 2 + j], p[kk + 2 + i]
                ctx.close(T.transpose(p), T, 1e-12, 'rand_ABk_density_matrix: invariant under permutations of the B copies')
    add('rand_ABk_density_matrix', st.fixed_dictionaries(dict(dimA=st.integers(1, 3), dimB=st.integers(2, 3), kext=st.integers(1, 3))),
        lambda k, s: R.rand_ABk_density_matrix(k['dimA'], k['dimB'], k['kext'], seed=s), v_abk)

    def v_red(ctx, k, x):
        part = k['partition']
        N = sum(part)
        if k['return_unitary']:
            ms, U = x
            ctx.close(U @ U.T, np.eye(N), 1e-10, 'rand_reducible_matrix_subspace: orthogonal change of basis')
            B = U @ ms @ U.T
            mask = np.zeros((N, N), dtype=bool)
            c = 0
            for p in part:
                mask[c:c + p, c:c + p] = True
                c += p
            ctx.small(B[:, ~mask], 1e-9, 'rand_reducible_matrix_subspace: block diagonal under the returned basis')
        else:
            ms = x
        ctx.require(ms.shape == (k['num_matrix'], N, N), 'rand_reducible_matrix_subspace: shape')
    add('rand_reducible_matrix_subspace', st.fixed_dictionaries(dict(num_matrix=st.integers(1, 4), partition=st.lists(st.integers(1, 3), min_size=2, max_size=3), return_unitary=st.booleans())),
        lambda k, s: R.rand_reducible_matrix_subspace(k['num_matrix'], tuple(k['partition']), return_unitary=k['return_unitary'], seed=s), v_red)

    def v_sip(ctx, k, x):
        B, U = x
        N = k['N0']
        ctx.require(U.shape == (N, N) and B.ndim == 3 and B.shape[1:] == (N, N) and B.shape[0] >= 1, 'rand_symmetric_inner_product: shapes')
        Z = B @ U - U.T @ B
        ctx.small(Z + np.swapaxes(Z, 1, 2), 1e-8, 'rand_symmetric_inner_product: x^T B U x = x^T U^T B x for all x')
    add('rand_symmetric_inner_product', st.fixed_dictionaries(dict(N0=st.integers(2, 5))), lambda k, s: R.rand_symmetric_inner_product(k['N0'], seed=s), v_sip)

    def v_onb(ctx, k, x):
        d, nq_, no = k['dim_qudit'], k['num_qudit'], k['num_orthonormal']
        D = d ** nq_
        samples = [x] if k['num_sample'] is None else x
        ctx.require(len(samples) == (1 if k['num_sample'] is None else k['num_sample']), 'rand_orthonormal_matrix_basis: number of samples')
        for smp in samples:
            smp = np.asarray(smp)
            ctx.require(smp.shape == (no * D + (1 if k['with_I'] else 0), D, D), 'rand_orthonormal_matrix_basis: shape', f'{smp.shape}')
            if k['with_I']:
                ctx.close(smp[0], np.eye(D), 1e-12, 'rand_orthonormal_matrix_basis: identity first')
                smp = smp[1:]
            P = smp.reshape(no, D, D, D)
            for b in range(no):
                ctx.close(P[b].sum(axis=0), np.eye(D), 1e-9, 'rand_orthonormal_matrix_basis: each basis resolves the identity')
                ctx.close(np.einsum('aij,bjk->abik', P[b], P[b]), np.einsum('ab,aik->abik', np.eye(D), P[b]), 1e-9, 'rand_orthonormal_matrix_basis: orthogonal rank-one projectors')
    add('rand_orthonormal_matrix_basis', st.fixed_dictionaries(dict(num_orthonormal=st.integers(1, 3), dim_qudit=st.integers(2, 3), num_qudit=st.integers(1, 2),
                                                                  num_sample=st.sampled_from([None, 1, 2]), with_I=st.booleans())),
        lambda k, s: R.rand_orthonormal_matrix_basis(k['num_orthonormal'], k['dim_qudit'], k['num_qudit'], num_sample=k['num_sample'], with_I=k['with_I'], seed=s), v_onb)

    def v_adj(ctx, k, x):
        d = k['dim']
        ctx.require(x.shape == (d, d) and x.dtype == np.uint8, 'rand_adjacent_matrix: shape and dtype')
        ctx.require(set(np.unique(x).tolist()) <= {0, 1} and np.array_equal(x, x.T) and np.all(np.diag(x) == 0), 'rand_adjacent_matrix: symmetric 0/1 with zero diagonal')
    add('rand_adjacent_matrix', st.fixed_dictionaries(dict(dim=st.integers(2, 8))), lambda k, s: R.rand_adjacent_matrix(k['dim'], seed=s), v_adj)

    def _size(k):
        z = k['size']
        return None if z is None else (z if isinstance(z, int) else tuple(z))

    def v_sphere(ball):
        def f(ctx, k, x):
            z = _size(k)
            shape = () if z is None else ((z,) if isinstance(z, int) else z)
            nm = 'rand_n_ball' if ball else 'rand_n_sphere'
            ctx.require(x.shape == shape + (k['dim'],), f'{nm}: shape', f'{x.shape}')
            nr = np.linalg.norm(x, axis=-1)
            if ball:
                ctx.require(np.all(nr <= 1 + 1e-12), f'{nm}: inside the unit ball', f'{nr.max()}')
            else:
                ctx.close(nr, np.ones(shape), 1e-12, f'{nm}: unit norm')
        return f
    s_sz = st.fixed_dictionaries(dict(dim=st.integers(1, 6), size=st.sampled_from([None, 1, 4, [2], [2, 3], []])))
    add('rand_n_sphere', s_sz, lambda k, s: R.rand_n_sphere(k['dim'], size=_size(k), seed=s), v_sphere(False))
    add('rand_n_ball', s_sz, lambda k, s: R.rand_n_ball(k['dim'], size=_size(k), seed=s), v_sphere(True))

    # --- F2 / symplectic / Pauli
    def v_f2(ctx, k, x):
        ctx.require(x.shape == tuple(k['size']) and x.dtype == np.uint8 and set(np.unique(x).tolist()) <= {0, 1}, 'rand_F2: uint8 0/1 array of the requested shape')
        if k['not_zero']:
            ctx.require(x.any(), 'rand_F2: not_zero honoured')
        if k['not_one']:
            ctx.require(not x.all(), 'rand_F2: not_one honoured')
    add('rand_F2', st.fixed_dictionaries(dict(size=st.sampled_from([[2], [1, 2], [3, 2], [6]]), not_zero=st.booleans(), not_one=st.booleans())),
        lambda k, s: R.rand_F2(*k['size'], not_zero=k['not_zero'], not_one=k['not_one'], seed=s), v_f2)

    def v_sp(ctx, k, x):
        n = k['n']
        base = [y for i in range(1, n + 1) for y in (4 ** i - 1, 2 ** (2 * i - 1))]
        L = ref.symplectic_form(n).astype(np.int64)

        def sym(M):
            ctx.require(np.array_equal((M.astype(np.int64) @ L @ M.astype(np.int64).T) % 2, L), 'rand_SpF2: symplectic')
        if k['return_kind'] == 'matrix':
            sym(x)
        elif k['return_kind'] == 'int_tuple':
            ctx.require(len(x) == 2 * n and all(0 <= int(a) < b for a, b in zip(x, base)), 'rand_SpF2: digits in range')
        else:
            ctx.require(all(0 <= int(a) < b for a, b in zip(x[0], base)), 'rand_SpF2: digits in range')
            sym(x[1])
            ctx.require(np.array_equal(x[1], nq.group.spf2.from_int_tuple(tuple(x[0]))), 'rand_SpF2: tuple and matrix agree')
    add('rand_SpF2', st.fixed_dictionaries(dict(n=st.integers(1, 5), return_kind=st.sampled_from(['matrix', 'int_tuple', 'int_tuple-matrix']))),
        lambda k, s: R.rand_SpF2(k['n'], return_kind=k['return_kind'], seed=s), v_sp)

    def v_cli(ctx, k, x):
        n = k['n']
        r, S = x
        L = ref.symplectic_form(n).astype(np.int64)
        ctx.require(r.shape == (2 * n,) and r.dtype == np.uint8 and r.max() <= 1, 'rand_Clifford_group: phase vector')
        ctx.require(np.array_equal((S.astype(np.int64) @ L @ S.astype(np.int64).T) % 2, L), 'rand_Clifford_group: symplectic matrix')
    add('rand_Clifford_group', st.fixed_dictionaries(dict(n=st.integers(1, 4))), lambda k, s: R.rand_Clifford_group(k['n'], seed=s), v_cli)

    def v_pauli(ctx, k, x):
        kk, s = ref.pauli_from_F2(x.F2)
        ctx.require(x.num_qubit == k['n'], 'rand_pauli: size')
        if k['is_hermitian'] is not None:
            ctx.require((kk % 2 == 0) == k['is_hermitian'], 'rand_pauli: Hermiticity flag honoured')
    add('rand_pauli', st.fixed_dictionaries(dict(n=st.integers(1, 6), is_hermitian=st.sampled_from([None, True, False]))),
        lambda k, s: R.rand_pauli(k['n'], is_hermitian=k['is_hermitian'], seed=s), v_pauli)

    # --- generator factories
    def v_rng(ctx, k, x):
        ctx.require(isinstance(x, np.ndarray), 'get_numpy_rng: int seed gives a usable Generator')
    add('get_numpy_rng', st.fixed_dictionaries(dict(n=st.integers(1, 4))), lambda k, s: R.get_numpy_rng(s).normal(size=k['n']), v_rng)
    add('get_random_rng', st.fixed_dictionaries(dict(n=st.integers(1, 4))), lambda k, s: np.array([R.get_random_rng(s).random() for _ in range(k['n'])]), v_rng)
    return T


_T = None


def T():
    global _T
    if _T is None:
        _T = table()
        nq = _nq()
        public = [n for n in dir(nq.random) if (n.startswith('rand_') or n.startswith('get_')) and callable(getattr(nq.random, n))]
        missing = sorted(set(public) - set(_T))
        if missing:
            raise HarnessError(f'numqi.random functions without an argument table: {missing}')
    return _T


FN_NAMES = ['rand_haar_state', 'rand_haar_unitary', 'rand_special_orthogonal_matrix', 'rand_density_matrix', 'rand_kraus_op', 'rand_choi_op', 'rand_povm',
            'rand_bipartite_state', 'rand_separable_dm', 'rand_hermitian_matrix', 'rand_channel_matrix_space', 'rand_quantum_channel_matrix_subspace',
            'rand_ABk_density_matrix', 'rand_reducible_matrix_subspace', 'rand_symmetric_inner_product', 'rand_orthonormal_matrix_basis', 'rand_adjacent_matrix',
            'rand_n_sphere', 'rand_n_ball', 'rand_F2', 'rand_SpF2', 'rand_Clifford_group', 'rand_pauli', 'get_numpy_rng', 'get_random_rng']

_noise = st.lists(st.tuples(st.sampled_from(NOISE), st.integers(0, 2 ** 31 - 1)), min_size=0, max_size=4)
_seed = st.one_of(st.sampled_from([0, 1, 2 ** 31 - 1, 2 ** 32 - 1]), st.integers(0, 2 ** 32 - 1))


@st.composite
def _strat(draw, tier='quick'):
    name = draw(st.sampled_from(FN_NAMES))
    # the kwargs strategies need numqi only for nothing; build table lazily without touching numqi.random semantics
    kw = draw(T()[name][0])
    return dict(fn=name, kwargs=kw, seed=draw(_seed), noise=[list(x) for x in draw(_noise)])


# Generators that normalise a random Gram matrix with its inverse square root (Kraus / Choi / POVM): the output is a member of the advertised set up to
# eps * cond^2 of the draw, and nearly singular draws do occur (square Gaussian matrices; about one draw in 1e5 misses 1e-9). A miss of the tight tolerance is
# therefore tolerated (label 'ill-conditioned draw tolerated') only if the same output passes the structural threshold 1e-2 - any wrong axis / missing conjugate /
# missing square root is O(1) - AND at least 3 of the 4 neighbouring seeds pass the tight tolerance, so a systematic loss of accuracy is still a violation.
CONDITIONED = {'rand_kraus_op', 'rand_choi_op', 'rand_povm'}


def _validate_conditioned(ctx, validate, call, kw, x, neighbour_seeds):
    from ..core import Violation
    try:
        validate(ctx, kw, x)
        return
    except Violation as first:
        validate(ctx, kw, x, tol=1e-2)
        good = 0
        for s2 in neighbour_seeds:
            try:
                validate(ctx, kw, call(kw, s2))
                good += 1
            except Violation:
                pass
        if good < 3:
            raise first
        ctx.label('ill-conditioned draw tolerated')


def run_random(ctx, case):
    name, kw, seed, noise = case['fn'], case['kwargs'], case['seed'], [tuple(x) for x in case['noise']]
    strat, call, validate0 = T()[name]
    if name in CONDITIONED:
        def validate(ctx_, kw_, x_):
            _validate_conditioned(ctx_, validate0, call, kw_, x_, [(seed + j) % 2 ** 32 for j in (1, 2, 3, 4)])
    else:
        validate = validate0
    nondefault = any(v not in (None, False) for k, v in kw.items() if k not in ('dim', 'dimA', 'dim_in', 'dim_out', 'n', 'd', 'N0', 'num_term', 'num_matrix', 'partition'))
    ctx.note(klass=name, desc=[name, sorted((k, repr(v)[:12]) for k, v in kw.items() if not isinstance(v, int) or isinstance(v, bool)), [o for o, _ in noise]],
             nontrivial=(len(noise) > 0 and nondefault), labels=[name, 'noise' if noise else 'no-noise', 'seed0' if seed == 0 else 'seed!=0'])
    a = call(kw, seed)
    validate(ctx, kw, a)
    do_noise(noise)
    b = call(kw, seed)
    xa, xb = _arrs(a), _arrs(b)
    ctx.require(len(xa) == len(xb) and all(np.array_equal(p, q) and p.dtype == q.dtype for p, q in zip(xa, xb)), f'{name}: same seed gives bit-identical output',
                f'kwargs={kw} seed={seed} noise={noise}')
    # the same seed given as a numpy integer scalar (an element of np.arange, the result of rng.integers ...) is the same seed
    if name not in ('get_random_rng', 'get_numpy_rng'):
        for np_seed in ([np.int64(seed)] if seed < 2 ** 63 else []) + ([np.uint32(seed)] if seed < 2 ** 32 else []):
            e = call(kw, np_seed)
            xe = _arrs(e)
            ctx.require(len(xe) == len(xa) and all(np.array_equal(p, q) and p.dtype == q.dtype for p, q in zip(xa, xe)), f'{name}: a numpy integer seed acts like the equal Python int',
                        f'kwargs={kw} seed={seed} as {type(np_seed).__name__}')
    # an unseeded call is also a member of the advertised set
    c = call(kw, None)
    validate(ctx, kw, c)
    # a Generator object is accepted wherever a seed is (documented) - only for the numpy based functions
    if name not in ('rand_SpF2', 'rand_Clifford_group', 'get_random_rng', 'get_numpy_rng'):
        g = call(kw, np.random.default_rng(seed))
        validate(ctx, kw, g)


# --------------------------------------------------------------------------------------------- other seed-taking APIs
@st.composite
def _strat_api(draw, tier='quick'):
    return dict(api=draw(st.sampled_from(['measure', 'circuit_measure', 'clifford_random', 'minimize', 'minimize_adam', 'purification', 'cha', 'chagd_boundary', 'pureb_boundary'])),
                seed=draw(_seed), noise=[list(x) for x in draw(_noise)], n=draw(st.integers(1, 4)), prng=draw(st.integers(0, 2 ** 31)))


class _Quad:
    pass


def _model():
    import torch

    class M(torch.nn.Module):
        def __init__(self):
            super().__init__()
            self.theta = torch.nn.Parameter(torch.zeros(4, dtype=torch.float64))
            self.A = torch.tensor(np.diag([1.0, 2.0, 3.0, 4.0]) + 0.1, dtype=torch.float64)

        def forward(self):
            return torch.dot(self.theta, self.A @ self.theta) + torch.sin(self.theta).sum()
    return M()


def run_api(ctx, case):
    import torch
    nq = _nq()
    api, seed, noise, n = case['api'], case['seed'], [tuple(x) for x in case['noise']], case['n']
    ctx.note(klass=api, desc=[api, [o for o, _ in noise]], nontrivial=len(noise) > 0, labels=[api, 'noise' if noise else 'no-noise'])
    r = ref.rng(case['prng'])

    psi_shared = ref.rand_state(ref.rng(case['prng']), 2 ** n)  # ONE array object handed to both calls ("repeating the call")

    def once():
        if api == 'measure':
            psi = psi_shared
            b, p, q = nq.sim.state.measure_quantum_vector(psi, tuple(range(0, n, 2)), seed=seed)
            ret_ = [np.array(b), p, q]
            if isinstance(b, list):  # the returned bit list belongs to the caller: editing it must not influence the repeated call
                b.reverse()
                b.append(5)
            return ret_
        if api == 'circuit_measure':
            psi = psi_shared
            c = nq.sim.Circuit()
            c.H(0)
            g = c.measure(tuple(range(n)), seed=seed)
            out = c.apply_state(psi)
            return [np.array(g.bitstr), g.probability, out]
        if api == 'clifford_random':
            c = nq.sim.CliffordCircuit(seed=seed)
            for q in range(n + 1):
                c.random_one_qubit_gate(q)
            for q in range(n):
                c.random_two_qubit_gate(q, q + 1)
            return [np.array([hash(str(g)) % (2 ** 31) for g in c.gate_index_list]), np.array([len(c.gate_index_list)])]
        if api == 'minimize':
            m = _model()
            res = nq.optimize.minimize(m, theta0='uniform', num_repeat=2, tol=1e-10, print_every_round=0, seed=seed)
            return [res.x, np.array(res.fun)]
        if api == 'minimize_adam':
            m = _model()
            res = nq.optimize.minimize_adam(m, 5, theta0='normal', seed=seed, tqdm_update_freq=0)
            return [np.array(float(res)), m.theta.detach().numpy().copy()]
        if api == 'purification':
            rho = ref.rand_dm(ref.rng(case['prng']), 3)
            return [nq.utils.get_purification(rho, dimR=3 + n, seed=seed)]
        if api == 'cha':
            rho = ref.rand_dm(ref.rng(case['prng']), 4)
            model = nq.entangle.CHABoundaryBagging((2, 2))
            beta, info = model.solve(rho, maxiter=3, return_info=True, seed=seed)
            return [np.array(beta)] + [np.asarray(x) for x in info if isinstance(x, np.ndarray)]
        if api in ('chagd_boundary', 'pureb_boundary'):
            rho = ref.rand_dm(ref.rng(case['prng']), 4)
            if api == 'chagd_boundary':
                m = nq.entangle.AutodiffCHAREE((2, 2), num_state=4, distance_kind='gellmann')
            else:
                m = nq.entangle.PureBosonicExt(2, 2, 2, distance_kind='gellmann')
            beta = m.get_boundary(rho, xtol=0.1, converge_tol=1e-4, num_repeat=1, use_tqdm=False, seed=seed)
            return [np.array(beta), m.dm_torch.numpy().copy()]
        raise ValueError(api)
    try:
        a = once()
        do_noise(noise)
        b = once()
    except Exception as e:  # noqa
        if type(e).__name__ == 'SolverError':
            ctx.inconclusive_case('cvxpy SolverError')
            return
        raise
    ctx.require(len(a) == len(b) and all(np.array_equal(np.asarray(p), np.asarray(q)) for p, q in zip(a, b)), f'{api}: same seed gives bit-identical result',
                f'seed={seed} noise={noise}')
    if api == 'purification':
        rho = ref.rand_dm(ref.rng(case['prng']), 3)
        ctx.close(a[0] @ a[0].conj().T, rho, 1e-10, 'get_purification: purifies the state')


SUBCHECKS = [
    SubCheck('generators', run_random, strategy=_strat, examples=(1500, 10000), shards=(4, 16), floors={'noise': 0.5, 'seed0': 0.1}),
    SubCheck('seeded_apis', run_api, strategy=_strat_api, examples=(150, 1500), shards=(3, 16), floors={'noise': 0.5}),
]
