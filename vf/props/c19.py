"""C19 - shipped quantum codes satisfy Knill-Laflamme and their listed stabilizers."""
import ast
import inspect
import itertools
import math
import numpy as np
from hypothesis import strategies as st

from ..core import SubCheck, HarnessError
from .. import ref

PROPERTY = 'C19'
RULE = ('exhaustive per shipped code ((5,2,3)) ((4,2,2)) ((4,4,2)) ((6,4,2)) ((8,8,3)) ((8,64,2)) ((10,4,4)) [+ ((11,2,5)) thorough]: every Pauli error of weight 1..d-1 '
        '(enumerated by vf, applied by axis flips / sign masks, not by numqi) on every pair of code words; every stabilizer circuit against the Pauli string listed in the '
        'source (read from the AST) on random states and code words; error-set generators for n<=6, d<=4 (asymmetric: n<=5, w_z in {0.5,1,1.5,2,3}) against brute force over '
        'all 4^n Paulis; weight enumerators for n<=6 (8 thorough) against sum rules and an independent enumerator; hypothesis-generated Pauli strings in both parser syntaxes. '
        'Every (code, error) pair is non-trivial and distinct.'
        ' Code words also in other memory layouts and as torch tensors (K=2,4); enumerator_history: weight enumerators of arbitrary random subspaces, several calls in a row with the same n and different K, each against the brute-force Pauli sum.'
        ' generate_code_np called again on the same circuit object; use_tqdm=True gives the same enumerators.')
RULE += ' Quick tier: the structural part (orthonormal code words, listed stabilizers fix them) of the thorough-only codes is judged as well.'
ASSUMPTIONS = ['the strings a stabilizer circuit must implement are the list literal assigned right before ret["stabilizer"] in the source of each generate_code* function; '
               'if that pattern is not found the comparison is skipped (labelled) and only the structural clauses are judged',
               'Knill-Laflamme tolerance 1e-9 on amplitudes']

CODES = ['523', '422', '442', '642', '883', '8_64_2', '10_4_4']
CODES_THOROUGH = ['11_2_5']


def _nq():
    import numqi
    return numqi


def apply_pauli(psi, n, ops):
    """ops: dict qubit -> 'X'|'Y'|'Z' acting on the LAST n tensor factors of psi (shape (..., 2**n)); pure numpy, independent of numqi"""
    lead = psi.shape[:-1]
    t = psi.reshape(lead + (2,) * n)
    L = len(lead)
    for q, p in ops.items():
        ax = L + q
        if p in 'XY':
            t = np.flip(t, axis=ax)
        if p in 'ZY':
            sh = [1] * t.ndim
            sh[ax] = 2
            if p == 'Z':
                t = t * np.array([1, -1]).reshape(sh)
            else:  # Y = [[0,-i],[i,0]]: after the flip, new index 0 gets -i * old[1], new index 1 gets +i * old[0]
                t = t * np.array([-1j, 1j]).reshape(sh)
    return t.reshape(psi.shape)


def pauli_errors(n, wmax):
    for w in range(1, wmax + 1):
        for pos in itertools.combinations(range(n), w):
            for ps in itertools.product('XYZ', repeat=w):
                yield dict(zip(pos, ps))


_code_cache = {}


def get_code(name):
    if name not in _code_cache:
        nq = _nq()
        code = getattr(nq.qec, 'generate_code' + name)()
        cw = nq.qec.generate_code_np(code['encode'], code['num_logical_dim'])
        _code_cache[name] = (code, cw)
    return _code_cache[name]


def listed_strings(name):
    nq = _nq()
    fn = getattr(nq.qec, 'generate_code' + name)
    try:
        tree = ast.parse(inspect.getsource(fn))
    except (OSError, SyntaxError):
        return None
    last = None
    found = None
    for node in ast.walk(tree):
        pass
    body = tree.body[0].body
    for stmt in body:
        if isinstance(stmt, ast.Assign) and len(stmt.targets) == 1:
            tgt = stmt.targets[0]
            if isinstance(tgt, ast.Name) and isinstance(stmt.value, ast.List) and all(isinstance(e, ast.Constant) and isinstance(e.value, str) for e in stmt.value.elts):
                last = [e.value for e in stmt.value.elts]
            if isinstance(tgt, ast.Subscript) and isinstance(tgt.slice, ast.Constant) and tgt.slice.value == 'stabilizer':
                found = last
    return found


def cases_codes(tier):
    names = CODES + (CODES_THOROUGH if tier == 'thorough' else [])
    out = []
    for nm in names:
        nblock = {'10_4_4': 8, '11_2_5': 32}.get(nm, 1)
        for b in range(nblock):
            out.append(dict(code=nm, block=b, nblock=nblock))
        out.append(dict(code=nm, block=-1, nblock=nblock))  # structural part: code words, stabilizers
    if tier != 'thorough':
        # the large codes: structural part only in the quick tier (orthonormal code words, listed stabilizers fix them); their Knill-Laflamme sweep is thorough-only
        for nm in CODES_THOROUGH:
            out.append(dict(code=nm, block=-1, nblock=1))
    return out


def run_codes(ctx, case):
    nq = _nq()
    name = case['code']
    code, cw = get_code(name)
    n, K, d = code['num_qubit'], code['num_logical_dim'], code['distance']
    ctx.note(klass=name, desc=[name, case['block']], nontrivial=True, labels=[name])
    ctx.require(cw.shape == (K, 2 ** n), 'code word array shape', f'{cw.shape}')
    if case['block'] >= 0:
        for i, ops in enumerate(pauli_errors(n, d - 1)):
            if i % case['nblock'] != case['block']:
                continue
            E = apply_pauli(cw, n, ops)
            M = cw.conj() @ E.T  # <c_i|E|c_j>
            c = np.trace(M) / K
            if np.abs(M - c * np.eye(K)).max() > 1e-9:
                ctx.require(False, 'Knill-Laflamme: <i|E|j> = c_E delta_ij for every Pauli error of weight < d', f'error {ops}: residual {np.abs(M - c * np.eye(K)).max():.3e}')
            ctx.tick()
        return
    # --- structural clauses
    ctx.close(cw.conj() @ cw.T, np.eye(K), 1e-10, 'code words orthonormal')
    # the encoding circuit object is the caller's: generating the code words again from the SAME object gives the same code words
    nq_before = code['encode'].num_qubit
    cw_again = nq.qec.generate_code_np(code['encode'], K)
    ctx.require(cw_again.shape == cw.shape, 'generate_code_np called again on the same circuit object: same shape', f'{cw_again.shape} vs {cw.shape}')
    ctx.close(cw_again, cw, 1e-12, 'generate_code_np called again on the same circuit object: same code words')
    ctx.require(code['encode'].num_qubit == nq_before == n, 'generate_code_np leaves the encoding circuit as it was', f'{nq_before} -> {code["encode"].num_qubit} (n={n})')
    # the library's own KL routine and loss agree with the reference on this code (loss = 0 <=> KL)
    errs = nq.qec.make_error_list(n, d)
    if len(errs) <= 4000:
        ip = nq.qec.knill_laflamme_inner_product(cw, errs)
        want = np.stack([cw.conj() @ apply_pauli(cw, n, {q[0]: 'XYZ'[[np.allclose(g, m) for m in (ref.SX, ref.SY, ref.SZ)].index(True)] for q, g in e}).T for e in errs])
        ctx.close(ip, want, 1e-10, 'knill_laflamme_inner_product = <i|E|j>')
        ctx.require(float(nq.qec.knill_laflamme_loss(ip, 'L2')) < 1e-12 and float(nq.qec.knill_laflamme_loss(ip, 'L1')) < 1e-6, 'knill_laflamme_loss vanishes on a code')
    stabs = code['stabilizer']
    strings = listed_strings(name)
    if strings is None or len(strings) != len(stabs):
        ctx.label('listed strings not found in the source: string comparison skipped')
        strings = None
    r = ref.rng(n * 1000 + K)
    probes = np.stack([ref.rand_state(r, 2 ** n) for _ in range(3)] + [cw[0], cw[-1]])
    images = []
    f2 = []
    for si, circ in enumerate(stabs):
        outs = np.stack([circ.apply_state(p.copy()) for p in probes])
        if strings is not None:
            s = strings[si]
            ctx.require(len(s) == n and set(s) <= set('IXYZ') and set(s) != {'I'}, 'listed stabilizer is a non-identity Pauli string on n qubits', s)
            ops = {q: p for q, p in enumerate(s) if p != 'I'}
            ctx.close(outs, apply_pauli(probes, n, ops), 1e-10, 'stabilizer circuit implements exactly the listed Pauli string')
            lst = nq.qec.parse_simple_pauli(s, tag_circuit=False)
            got = {int(q): 'XYZ'[[np.allclose(g, m) for m in (ref.SX, ref.SY, ref.SZ)].index(True)] for g, q in lst}
            ctx.require(got == ops, 'parse_simple_pauli(tag_circuit=False) describes the same operator')
            f2.append([1 if c in 'XY' else 0 for c in s] + [1 if c in 'ZY' else 0 for c in s])
        ctx.require(np.abs(outs[:3] - probes[:3]).max() > 1e-3, 'stabilizer circuit is not the identity')
        # a Pauli string: squares to +-identity, norm preserving
        twice = np.stack([circ.apply_state(o.copy()) for o in outs])
        ctx.close(twice, probes, 1e-10, 'stabilizer circuit squares to the identity')
        fixed = np.stack([circ.apply_state(c.copy()) for c in cw])
        ctx.close(fixed, cw, 1e-9, 'every listed stabilizer fixes every code word')
        images.append(outs)
        ctx.tick()
    zs = nq.qec.check_stabilizer(stabs, cw)
    ctx.require(np.shape(zs) == (K, len(stabs)), 'check_stabilizer: one expectation value per (code word, stabilizer)', f'{np.shape(zs)}')
    ctx.close(zs, np.ones((K, len(stabs))), 1e-9, 'check_stabilizer: <c|S|c> = 1 for every code word and stabilizer')
    # pairwise commutation on the random probes
    for a in range(len(stabs)):
        for b in range(a + 1, len(stabs)):
            ab = np.stack([stabs[a].apply_state(stabs[b].apply_state(p.copy())) for p in probes[:2]])
            ba = np.stack([stabs[b].apply_state(stabs[a].apply_state(p.copy())) for p in probes[:2]])
            ctx.close(ab, ba, 1e-10, 'stabilizers commute pairwise')
    if f2:
        M = np.array(f2, dtype=np.int64)
        # rank over F2
        A = M.copy() % 2
        rank = 0
        for col in range(A.shape[1]):
            piv = [i for i in range(rank, A.shape[0]) if A[i, col]]
            if not piv:
                continue
            A[[rank, piv[0]]] = A[[piv[0], rank]]
            for i in range(A.shape[0]):
                if i != rank and A[i, col]:
                    A[i] = (A[i] + A[rank]) % 2
            rank += 1
        ctx.require(rank == len(f2), 'listed stabilizers are independent', f'rank {rank} of {len(f2)}')
        ctx.require(len(f2) <= n - math.log2(K) + 1e-9, 'number of independent stabilizers fixing a K-dimensional code is at most n - log2 K')
    # weight enumerators
    if n <= (6 if ctx.tier == 'quick' else 8):
        A, B = nq.qec.quantum_weight_enumerator(cw)
        ctx.require(len(A) == n and len(B) == n, 'enumerator lengths')
        if n <= 5:
            import io
            import contextlib
            with contextlib.redirect_stderr(io.StringIO()):
                A_t, B_t = nq.qec.quantum_weight_enumerator(cw, use_tqdm=True)
            ctx.close(A_t, A, 1e-12, 'quantum_weight_enumerator(use_tqdm=True) = default call (A)')
            ctx.close(B_t, B, 1e-12, 'quantum_weight_enumerator(use_tqdm=True) = default call (B)')
        ctx.close(1 + A.sum(), 2 ** n / K, 1e-8, 'sum rule: sum_j A_j = 2^n / K')
        ctx.close(1 + B.sum(), 2 ** n * K, 1e-7, 'sum rule: sum_j B_j = 2^n K')
        ctx.require(np.all(A >= -1e-9) and np.all(B >= A - 1e-8), 'enumerators: 0 <= A_j <= B_j')
        ctx.close(A[:d - 1], B[:d - 1], 1e-8, 'A_j = B_j for j < d')
        if n <= 6:
            Ar, Br = np.zeros(n), np.zeros(n)
            for ops in pauli_errors(n, n):
                M = cw.conj() @ apply_pauli(cw, n, ops).T
                w = len(ops)
                Ar[w - 1] += abs(np.trace(M)) ** 2 / K ** 2
                Br[w - 1] += np.sum(np.abs(M) ** 2) / K
            ctx.close(A, Ar, 1e-8, 'A enumerator = sum |Tr(P E)|^2 / K^2')
            ctx.close(B, Br, 1e-8, 'B enumerator = sum Tr(P E P E^dagger) / K')
        ctx.label('enumerators')


# --------------------------------------------------------------------------------------------- error sets
def _to_string(err, n):
    s = ['I'] * n
    for idx, g in err:
        q = idx[0]
        k = [np.allclose(g, m) for m in (ref.SX, ref.SY, ref.SZ)].index(True)
        if s[q] != 'I':
            return None
        s[q] = 'XYZ'[k]
    return ''.join(s)


def cases_errsets(tier):
    out = [dict(kind='sym', n=n, d=d) for n in range(1, 7) for d in range(2, 5)]
    out += [dict(kind='asym', n=n, d=d, wz=w) for n in range(1, 6) for d in range(2, 5) for w in (0.5, 1, 1.5, 2, 3, 2.5)]
    return out


def run_errsets(ctx, case):
    nq = _nq()
    n, d = case['n'], case['d']
    if case['kind'] == 'sym':
        ctx.note(klass='sym', desc=['sym', n, d], nontrivial=True)
        errs = nq.qec.make_error_list(n, d)
        strs = [_to_string(e, n) for e in errs]
        ctx.require(None not in strs, 'every error acts at most once per qubit')
        want = set()
        for w in range(1, min(d - 1, n) + 1):
            for pos in itertools.combinations(range(n), w):
                for ps in itertools.product('XYZ', repeat=w):
                    s = ['I'] * n
                    for q, p in zip(pos, ps):
                        s[q] = p
                    want.add(''.join(s))
        ctx.require(len(strs) == len(set(strs)), 'each Pauli appears exactly once', f'{len(strs)} vs {len(set(strs))}')
        ctx.require(set(strs) == want, 'error list = all Paulis of weight 1..d-1', f'{len(strs)} vs {len(want)}')
        ctx.require(len(strs) == sum(math.comb(n, w) * 3 ** w for w in range(1, min(d - 1, n) + 1)), 'count = sum C(n,w) 3^w')
        if n <= 4:
            full = nq.qec.make_error_list(n, d, tag_full=True)
            ctx.require(len(full) == len(errs), 'tag_full: same number of errors')
            for s, m in zip(strs, full):
                ctx.close(m, ref.pauli_dense((0, s)), 1e-14, 'tag_full matrix = Kronecker product of the listed factors')
        return
    wz = case['wz']
    ctx.note(klass='asym', desc=['asym', n, d, wz], nontrivial=True)
    errs = nq.qec.make_asymmetric_error_set(n, d, weight_z=wz)
    strs = [_to_string(e, n) for e in errs]
    ctx.require(None not in strs, 'every error acts at most once per qubit')
    want = set()
    for ps in itertools.product('IXYZ', repeat=n):
        nxy = sum(1 for p in ps if p in 'XY')
        nz = sum(1 for p in ps if p == 'Z')
        if (nxy + nz) > 0 and nxy + wz * nz < d:
            want.add(''.join(ps))
    ctx.require(len(strs) == len(set(strs)), 'each operator appears exactly once', f'{len(strs)} vs {len(set(strs))}')
    ctx.require(set(strs) == want, 'asymmetric error set = {nx+ny+wz*nz < d}', f'n={n} d={d} wz={wz}: {len(strs)} vs {len(want)}; missing {sorted(want - set(strs))[:3]} extra {sorted(set(strs) - want)[:3]}')


# --------------------------------------------------------------------------------------------- parsers
@st.composite
def _strat_parse(draw, tier='quick'):
    n = draw(st.integers(1, 12))
    s = ''.join(draw(st.lists(st.sampled_from('IXYZ'), min_size=n, max_size=n)))
    return dict(s=s, K=draw(st.sampled_from([1, 2, 4, 64])), d=draw(st.integers(1, 9)), wz=draw(st.sampled_from([None, 2.0, 1.5])), prng=draw(st.integers(0, 2 ** 31)))


def run_parse(ctx, case):
    nq = _nq()
    s = case['s']
    n = len(s)
    ops = {q: p for q, p in enumerate(s) if p != 'I'}
    ctx.note(klass='parse', desc=[n, sorted(set(s))], nontrivial=len(ops) > 0, labels=[f'weight={min(len(ops), 3)}'])
    dense = ''.join(s)
    indexed = ''.join(f'{p}{q}' for q, p in enumerate(s) if p != 'I' or (q % 3 == 0))
    r = ref.rng(case['prng'])
    width = n if n <= 10 else 10
    for form, text in (('dense', dense), ('indexed', indexed)):
        if form == 'indexed' and text == '':
            continue
        if any(ch.isdigit() for ch in text) != (form == 'indexed'):
            continue
        lst = nq.qec.parse_simple_pauli(text, tag_circuit=False)
        got = {}
        for g, q in lst:
            k = [np.allclose(g, m) for m in (ref.SX, ref.SY, ref.SZ)].index(True)
            got[int(q)] = 'XYZ'[k]
        ctx.require(got == ops, f'parse_simple_pauli ({form}, list form) = the written operator', f'{text}: {got} vs {ops}')
        if n <= 10 and ops:
            circ = nq.qec.parse_simple_pauli(text, tag_circuit=True)
            psi = ref.rand_state(r, 2 ** n)
            ctx.close(circ.apply_state(psi.copy()), apply_pauli(psi, n, ops), 1e-12, f'parse_simple_pauli ({form}, circuit form) implements the written operator')
    name = f'(({n},{case["K"]},{case["d"]}))' if case['wz'] is None else f'(({n},{case["K"]},de({case["wz"]})={case["d"]}))'
    z = nq.qec.parse_str_qecc(name)
    ctx.require(z == dict(num_qubit=n, num_logical_dim=case['K'], weight_z=case['wz'], distance=case['d']), 'parse_str_qecc round trip', f'{name} -> {z}')


@st.composite
def _strat_loss(draw, tier='quick'):
    return dict(n=draw(st.integers(2, 4)), K=draw(st.sampled_from([2, 4])), nerr=draw(st.integers(1, 4)), kind=draw(st.sampled_from(['random', 'repetition', 'diag-only'])),
                prng=draw(st.integers(0, 2 ** 31)))


def run_loss(ctx, case):
    """knill_laflamme_loss = 0 <=> the KL clause: compare with the explicit formula on arbitrary (non-code) subspaces"""
    import torch
    nq = _nq()
    n, K, kind = case['n'], case['K'], case['kind']
    ctx.note(klass='loss', desc=[n, K, kind], nontrivial=True, labels=[kind])
    r = ref.rng(case['prng'])
    if kind == 'random':
        q, _ = np.linalg.qr(ref.rand_complex(r, 2 ** n, K))
        cw = q.T.copy()
    else:
        K = 2
        cw = np.zeros((2, 2 ** n), dtype=np.complex128)
        cw[0, 0] = 1
        cw[1, -1] = 1
    errs = []
    for _ in range(case['nerr']):
        q0 = int(r.integers(0, n))
        g = [ref.SX, ref.SY, ref.SZ][int(r.integers(0, 3))] if kind != 'diag-only' else ref.SZ
        errs.append([([q0], g)])
    layout = ref.LAYOUTS[(case['prng'] // 7) % len(ref.LAYOUTS)]
    ctx.label('layout=' + layout)
    cw_in = ref.with_layout(cw, layout)  # the same code words in another memory layout (e.g. q.T of a QR factor is Fortran ordered)
    ip = nq.qec.knill_laflamme_inner_product(cw_in, errs)
    ctx.close(cw_in, cw, 0, 'knill_laflamme_inner_product does not modify the code words')
    want = np.stack([cw.conj() @ apply_pauli(cw, n, {e[0][0][0]: 'XYZ'[[np.allclose(e[0][1], m) for m in (ref.SX, ref.SY, ref.SZ)].index(True)]}).T for e in errs])
    ctx.close(ip, want, 1e-12, 'knill_laflamme_inner_product = <i|E|j>')
    ip_t = nq.qec.knill_laflamme_inner_product(torch.tensor(cw), errs)
    ctx.close(ip_t, want, 1e-12, 'knill_laflamme_inner_product (torch code words) = <i|E|j>')
    ctx.label(f'K={K}')
    for knd, p in (('L1', 1), ('L2', 2)):
        ref_loss = 0.0
        for M in want:
            ref_loss += sum(abs(M[i, j]) ** p for i in range(K) for j in range(i + 1, K))
            dg = np.diag(M)
            ref_loss += sum(abs(x - dg.mean()) ** p for x in dg)
        got = float(nq.qec.knill_laflamme_loss(ip, knd))
        ctx.close(got, ref_loss, 1e-10, f'knill_laflamme_loss({knd}) = off-diagonal + diagonal-spread terms', max(1.0, ref_loss))
        got_t = float(nq.qec.knill_laflamme_loss(torch.tensor(ip), knd))
        ctx.close(got_t, ref_loss, 1e-10, f'knill_laflamme_loss({knd}, torch) = numpy value', max(1.0, ref_loss))
        if kind == 'diag-only':
            ctx.require(got > 1e-3, 'loss is positive when only the diagonal KL condition fails (|0..0>,|1..1> under Z)', f'{got}')


@st.composite
def _strat_enum(draw, tier='quick'):
    n = draw(st.integers(2, 4))
    Ks = draw(st.lists(st.integers(1, min(4, 2 ** n)), min_size=2, max_size=4))
    return dict(n=n, Ks=Ks, same_n=draw(st.booleans()), prng=draw(st.integers(0, 2 ** 31)))


def run_enum(ctx, case):
    """weight enumerators of arbitrary subspaces, several in a row in one process (same n, different K): each call against the brute-force sum over all Paulis"""
    nq = _nq()
    r = ref.rng(case['prng'])
    Ks = case['Ks']
    ctx.note(klass='enumerator history', desc=[case['n'], Ks, case['same_n']], nontrivial=len(set(Ks)) > 1, labels=['K changes' if len(set(Ks)) > 1 else 'same K'] + [f'K={k}' for k in Ks])
    for it, K in enumerate(Ks):
        n = case['n'] if (case['same_n'] or it == 0) else 2 + (case['n'] + it) % 3
        K = min(K, 2 ** n)
        q, _ = np.linalg.qr(ref.rand_complex(r, 2 ** n, K))
        cw = q.T.copy()
        A, B = nq.qec.quantum_weight_enumerator(cw)
        Ar, Br = np.zeros(n), np.zeros(n)
        for ops in pauli_errors(n, n):
            M = cw.conj() @ apply_pauli(cw, n, ops).T
            Ar[len(ops) - 1] += abs(np.trace(M)) ** 2 / K ** 2
            Br[len(ops) - 1] += np.sum(np.abs(M) ** 2) / K
        ctx.close(A, Ar, 1e-8, 'A enumerator = sum |Tr(P E)|^2 / K^2 (any subspace, any call history)', max(1.0, Ar.max()))
        ctx.close(B, Br, 1e-8, 'B enumerator = sum Tr(P E P E^dagger) / K (any subspace, any call history)', max(1.0, Br.max()))
        ctx.tick()


SUBCHECKS = [
    SubCheck('kl_loss', run_loss, strategy=_strat_loss, examples=(200, 1500)),
    SubCheck('codes', run_codes, cases=cases_codes, shards=(8, 16), doc='KL for every Pauli error below the distance; stabilizers vs listed strings; enumerators'),
    SubCheck('error_sets', run_errsets, cases=cases_errsets, shards=(4, 8)),
    SubCheck('parsers', run_parse, strategy=_strat_parse, examples=(300, 2000)),
    SubCheck('enumerator_history', run_enum, strategy=_strat_enum, examples=(60, 600), shards=(2, 8), floors={'K changes': 0.4}),
]
