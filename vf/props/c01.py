"""C01 - every trivialization map lands on its manifold."""
import math
import numpy as np
from hypothesis import strategies as st

from ..core import SubCheck
from .. import ref
from .. import manifold_table as mt

PROPERTY = 'C01'
RULE = ('hypothesis over the table of maps (vf/manifold_table.py: softplus/exp, interval, ball, sphere quotient/coordinate, simplex softmax/sphere, trace-one PSD '
        'cholesky/ensemble, symmetric x trace0 x norm1, SO/SU exp and cayley order 1..3, Stiefel polar/qr/choleskyL/euler(+-phase)) x field x dim 2..6 x rank 1..dim x '
        'float32/64 x numpy/torch x batch shape (),(1,),(k,),(k,l) x scale {0.1,0.5,1.62,2,10,30,100} (capped per row) x pattern {normal, uniform, all-equal, one-hot, '
        'sign-flipped}; class-only objects (so-exp/so-cayley Stiefel slices, SeparableDensityMatrix, QuantumChannel 6 methods x kraus/choi, quantum_state, density_matrix, '
        'quantum_gate, symmetric_matrix_to_trace1PSD, ABkHermitian, ABk2localHermitian). Oracle: the defining constraints evaluated in complex128; module == functional on '
        'the module parameters; batched == per-sample. Non-trivial = scale>0.5 or batch shape != (3,) or float32 or dim != 7 ... (everything tests/test_manifold.py does not '
        'reach); distinct = (row, option, field, dim, rank, dtype, backend, batch shape, scale, pattern).'
        ' Scale 1e-6 (tiny non-zero parameter vectors) added for the maps that divide by a norm.'
        ' A zero sample in a batch (maps that do not divide by a norm); QR at an exactly vanishing sample; strict positivity judged element by element.')
ASSUMPTIONS = ['measure-zero singularities are excluded by construction: |theta|>=1e-3 for quotient maps, generic (non rank-deficient) theta for polar/qr/ensemble',
               'float64 constraints at 1e-9 (1e-8 for matrix exp / cayley at scale>=10), float32 at 2e-3; strict interior of interval/ball only for |theta|<=30 (float64) / 12 (float32)',
               'to_stiefel_euler asserts theta.ndim<=2: batch shape (k,l) is a domain restriction for that row',
               'scale caps per row: choleskyL 10 (3 for float32), exp/cayley 30 (10 for float32), positive_real_exp 80 in float32 (overflow to inf is inherent)']

SCALES = [1e-6, 0.1, 0.5, 1.62, 2.0, 10.0, 30.0, 100.0]  # 1e-6: tiny but non-zero parameter vectors (the quotient maps divide by the norm)
BATCHES = [[], [1], [3], [2], [2, 3], [1, 2]]
_rows = None


def rows():
    global _rows
    if _rows is None:
        _rows = {r.name: r for r in mt.build_rows()}
    return _rows


ROW_NAMES = ['positive_real_softplus', 'positive_real_exp', 'open_interval', 'ball', 'sphere_quotient', 'sphere_coordinate', 'simplex_softmax', 'simplex_sphere',
             'trace1psd_cholesky', 'trace1psd_ensemble', 'symmetric_t0n0', 'symmetric_t0n1', 'symmetric_t1n0', 'symmetric_t1n1', 'so_exp', 'so_cayley',
             'stiefel_polar', 'stiefel_qr', 'stiefel_choleskyL', 'stiefel_euler']
N_OPTS = {'open_interval': 4, 'so_cayley': 3, 'stiefel_euler': 2}
DIM_HI = {'so_exp': 5, 'so_cayley': 5}
FIELDS = {'positive_real_softplus': ['real'], 'positive_real_exp': ['real'], 'open_interval': ['real'], 'simplex_softmax': ['real'], 'simplex_sphere': ['real']}


@st.composite
def _strat(draw, tier='quick'):
    name = draw(st.sampled_from(ROW_NAMES))
    dim = draw(st.integers(2, DIM_HI.get(name, 6)))
    return dict(row=name, opt=draw(st.integers(0, N_OPTS.get(name, 1) - 1)), field=draw(st.sampled_from(FIELDS.get(name, ['real', 'complex']))), dim=dim,
                rank=draw(st.integers(1, dim)), prec=draw(st.sampled_from([64, 64, 32])), backend=draw(st.sampled_from(['numpy', 'torch'])),
                batch=draw(st.sampled_from(BATCHES)), scale=draw(st.sampled_from(SCALES)), pattern=draw(st.sampled_from(mt.PATTERNS)),
                prng=draw(st.integers(0, 2 ** 31)))


def _np(x):
    import torch
    if isinstance(x, torch.Tensor):
        x = x.detach().cpu().numpy()
    return np.asarray(x)


def check_constraint(ctx, name, out, dim, rank, field, opt, prec, theta, tag=''):
    """defining constraints of the manifold `name` on `out` (numpy array with leading batch dims)"""
    tol = 1e-9 if prec == 64 else 2e-3
    big = float(np.abs(theta).max()) >= 9.9
    x = np.asarray(out)
    ctx.finite(x, f'{name}: finite output{tag}')
    if name.startswith('positive_real'):
        ctx.require(x.shape == theta.shape, f'{name}: shape')
        # strictly positive element by element wherever exp(theta) is representable (softplus(t) ~ exp(t) for t << 0); below that an exact 0 is inherent
        lim = 700 if prec == 64 else 80
        inside = np.asarray(theta) > -lim
        ctx.require(np.all(x >= 0) and np.all(x[inside] > 0), f'{name}: positive', f'min={x.min()} at theta={np.asarray(theta)[inside][np.argmin(x[inside])] if inside.any() else None}')
    elif name == 'open_interval':
        lo, hi = opt
        ctx.require(x.shape == theta.shape, f'{name}: shape')
        ctx.require(np.all(x >= lo - tol) and np.all(x <= hi + tol), f'{name}: inside [lower, upper]', f'{x.min()} {x.max()} vs {lo} {hi}')
        if np.abs(theta).max() <= (30 if prec == 64 else 12):
            ctx.require(np.all(x > lo) and np.all(x < hi), f'{name}: strictly inside the open interval', f'{x.min()} {x.max()} vs {lo} {hi}')
    elif name == 'ball':
        ctx.require(x.shape == theta.shape[:-1] + (dim,), f'{name}: shape', f'{x.shape}')
        ctx.require(np.iscomplexobj(x) == (field == 'complex'), f'{name}: field')
        nr = np.linalg.norm(x.astype(np.complex128), axis=-1)
        ctx.require(np.all(nr <= 1 + 1e-12), f'{name}: norm below one', f'max norm {nr.max()}')
        if np.linalg.norm(theta, axis=-1).max() <= (1e6 if prec == 64 else 1e3):
            ctx.require(np.all(nr < 1), f'{name}: norm strictly below one', f'max norm {nr.max()}')
    elif name.startswith('sphere'):
        ctx.require(x.shape == theta.shape[:-1] + (dim,), f'{name}: shape', f'{x.shape}')
        ctx.require(np.iscomplexobj(x) == (field == 'complex'), f'{name}: field')
        ctx.close(np.linalg.norm(x.astype(np.complex128), axis=-1), np.ones(x.shape[:-1]), tol, f'{name}: unit norm{tag}')
    elif name.startswith('simplex'):
        ctx.require(x.shape == theta.shape, f'{name}: shape')
        ctx.require(np.all(x >= 0), f'{name}: entries non-negative')
        ctx.close(x.astype(np.float64).sum(axis=-1), np.ones(x.shape[:-1]), tol, f'{name}: entries sum to one{tag}')
    elif name.startswith('trace1psd'):
        ctx.require(x.shape == theta.shape[:-1] + (dim, dim), f'{name}: shape', f'{x.shape}')
        ctx.require(np.iscomplexobj(x) == (field == 'complex'), f'{name}: field')
        X = x.astype(np.complex128).reshape(-1, dim, dim)
        ctx.close(X, X.conj().transpose(0, 2, 1), tol, f'{name}: Hermitian{tag}')
        ctx.close(np.trace(X, axis1=1, axis2=2), np.ones(len(X)), tol, f'{name}: trace one{tag}')
        ev = np.linalg.eigvalsh((X + X.conj().transpose(0, 2, 1)) / 2)
        ctx.require(ev.min() >= -tol, f'{name}: positive semidefinite', f'min eig {ev.min()}')
        nrank = (ev > max(tol, 1e-7 if prec == 64 else 2e-3)).sum(axis=1).max()
        ctx.require(nrank <= rank, f'{name}: rank at most r', f'{nrank} > {rank}')
    elif name.startswith('symmetric'):
        t0, n1 = opt
        ctx.require(x.shape == theta.shape[:-1] + (dim, dim), f'{name}: shape', f'{x.shape}')
        ctx.require(np.iscomplexobj(x) == (field == 'complex'), f'{name}: field')
        X = x.astype(np.complex128).reshape(-1, dim, dim)
        sc = 1.0 if n1 else max(1.0, float(np.abs(theta).max()))
        ctx.close(X, X.conj().transpose(0, 2, 1), tol, f'{name}: symmetric/Hermitian{tag}', sc)
        if t0:
            ctx.small(np.trace(X, axis1=1, axis2=2), tol, f'{name}: trace zero{tag}', sc * dim)
        if n1:
            ctx.close(np.linalg.norm(X.reshape(len(X), -1), axis=1), np.ones(len(X)), tol, f'{name}: unit Frobenius norm{tag}')
    elif name.startswith('so_'):
        ctx.require(x.shape == theta.shape[:-1] + (dim, dim), f'{name}: shape', f'{x.shape}')
        ctx.require(np.iscomplexobj(x) == (field == 'complex'), f'{name}: field')
        X = x.astype(np.complex128).reshape(-1, dim, dim)
        t = (1e-8 if big else tol) if prec == 64 else (2e-2 if big else tol)
        ctx.close(X @ X.conj().transpose(0, 2, 1), np.broadcast_to(np.eye(dim), X.shape), t, f'{name}: unitary{tag}')
        if name == 'so_exp' or field == 'real':
            ctx.close(np.linalg.det(X), np.ones(len(X)), t * dim, f'{name}: unit determinant{tag}')
    elif name.startswith('stiefel'):
        ctx.require(x.shape == theta.shape[:-1] + (dim, rank), f'{name}: shape', f'{x.shape}')
        ctx.require(np.iscomplexobj(x) == (field == 'complex'), f'{name}: field')
        X = x.astype(np.complex128).reshape(-1, dim, rank)
        t = (1e-7 if name in ('stiefel_polar', 'stiefel_qr', 'stiefel_choleskyL') else tol) if prec == 64 else 5e-3
        if name == 'stiefel_choleskyL' and big:
            t = 1e-6 if prec == 64 else 5e-2
        ctx.close(X.conj().transpose(0, 2, 1) @ X, np.broadcast_to(np.eye(rank), (len(X), rank, rank)), t, f'{name}: X^dagger X = I{tag}')
    else:
        raise ValueError(name)


def conditioning(name, theta, dim, rank, field):
    """condition number of the matrix that polar / qr / choleskyL orthonormalise (their error grows like eps*cond^2)"""
    if rank < 2 or name not in ('stiefel_polar', 'stiefel_qr', 'stiefel_choleskyL'):
        return 1.0
    flat = theta.reshape(-1, theta.shape[-1]).astype(np.float64)
    worst = 1.0
    for t in flat:
        if name in ('stiefel_polar', 'stiefel_qr'):
            M = t.reshape(dim, rank) if field == 'real' else (t.reshape(2, dim, rank)[0] + 1j * t.reshape(2, dim, rank)[1])
        else:
            N1 = rank * (rank - 1) // 2
            L = np.eye(rank, dtype=np.complex128)
            il = np.tril_indices(rank, -1)
            if field == 'real':
                L[il] = t[:N1]
                rest = t[N1:].reshape(dim - rank, rank)
            else:
                L[il] = t[:N1] + 1j * t[N1:2 * N1]
                tmp = t[2 * N1:].reshape(2, dim - rank, rank)
                rest = tmp[0] + 1j * tmp[1]
            M = np.concatenate([L, rest], axis=0)
        sv = np.linalg.svd(M, compute_uv=False)
        worst = max(worst, sv[0] / max(sv[-1], 1e-300))
    return worst


def run_functional(ctx, case):
    import torch
    R = rows()[case['row']]
    name, field, dim, prec, backend = case['row'], case['field'], case['dim'], case['prec'], case['backend']
    rank = case['rank'] if R.needs_rank else dim
    opt = R.opts[case['opt'] % len(R.opts)]
    batch = list(case['batch'])
    if len(batch) > R.max_batch_ndim:
        batch = batch[:R.max_batch_ndim]
    cap = R.scale_cap if prec == 64 else R.scale_cap32
    scale = min(case['scale'], cap)
    pattern = case['pattern']
    if not R.structured and pattern in ('equal', 'onehot'):
        pattern = 'normal'
    n = R.nparam(field, dim, rank, opt)
    nt = scale > 0.5 or batch != [3] or prec == 32 or dim != 7
    ctx.suffix = ' [f32]' if prec == 32 else ''
    ctx.note(klass=f'{name}', desc=[name, case['opt'] % len(R.opts), field, dim, rank, prec, backend, batch, scale, pattern], nontrivial=nt,
             labels=[name, backend, f'prec{prec}', f'batch_ndim={len(batch)}', f'scale={scale}', pattern, 'rank=dim' if rank == dim else 'rank<dim'])
    if n == 0:
        ctx.label('no parameters')
        return
    r = ref.rng(case['prng'])
    theta = np.clip(mt.make_theta(r, n, batch, scale, pattern, R.min_norm), -cap, cap).astype(np.float32 if prec == 32 else np.float64)
    if conditioning(name, theta, dim, rank, field) > (1e3 if prec == 64 else 30):
        ctx.label('skipped: ill-conditioned theta for an orthonormalising map')
        return
    tin = torch.tensor(theta) if backend == 'torch' else theta
    theta_before = theta.copy()
    out = R.call(tin, dim, rank, field, opt)
    ctx.close(_np(tin), theta_before, 0, f'{name}: the parameter array passed in is not modified')
    ctx.require(isinstance(out, torch.Tensor) == (backend == 'torch'), f'{name}: backend preserved')
    x = _np(out)
    check_constraint(ctx, name, x, dim, rank, field, opt, prec, theta)
    tol = (1e-9 if prec == 64 else 2e-3) * (10 if scale >= 10 else 1)
    if name in ('stiefel_polar', 'stiefel_qr', 'stiefel_choleskyL'):
        tol = 1e-6 if prec == 64 else 1e-2  # eps * cond^2 with cond <= 1e3 (30 for float32)
    # batched call = stack of per-sample calls
    if len(batch) >= 1:
        flat = theta.reshape(-1, n)
        per = np.stack([_np(R.call(torch.tensor(t) if backend == 'torch' else t, dim, rank, field, opt)) for t in flat])
        ctx.close(x.reshape(per.shape), per, tol, f'{name}: batched call = per-sample calls', max(1.0, float(np.abs(per).max())))
    # the other backend agrees
    other = R.call(theta if backend == 'torch' else torch.tensor(theta), dim, rank, field, opt)
    ctx.close(_np(other), x, tol * 10, f'{name}: numpy and torch functional agree', max(1.0, float(np.abs(x).max())))
    if name == 'stiefel_qr':
        # exactly vanishing parameters (a zero sample in a batch): QR still returns an isometry (the factor is not unique there, so only the constraint is judged)
        z = np.zeros((2, n), dtype=theta.dtype)
        z[1] = theta.reshape(-1, n)[0]
        for zz in (z, torch.tensor(z)):
            xz = _np(R.call(zz, dim, rank, field, opt))
            ctx.close(np.einsum('bij,bik->bjk', xz.conj(), xz), np.broadcast_to(np.eye(rank), (2, rank, rank)), tol, f'{name}: X^dagger X = I also for an exactly vanishing parameter sample')


@st.composite
def _strat_module(draw, tier='quick'):
    c = draw(_strat(tier))
    c['batch'] = draw(st.sampled_from([[], [1], [3], [2]]))
    return c


def run_module(ctx, case):
    import torch
    R = rows()[case['row']]
    name, field, dim, prec = case['row'], case['field'], case['dim'], case['prec']
    scalar = name.startswith('positive_real') or name == 'open_interval'
    if scalar:
        dim = 1
    rank = case['rank'] if R.needs_rank else dim
    opt = R.opts[case['opt'] % len(R.opts)]
    batch = list(case['batch'])
    bsize = batch[0] if batch else None
    cap = R.scale_cap if prec == 64 else R.scale_cap32
    scale = min(case['scale'], cap)
    pattern = case['pattern'] if (R.structured or case['pattern'] not in ('equal', 'onehot')) else 'normal'
    tdt = torch.float32 if prec == 32 else torch.float64
    ctx.suffix = ' [f32]' if prec == 32 else ''
    ctx.note(klass=f'{name}', desc=[name, case['opt'] % len(R.opts), field, dim, rank, prec, batch, scale], nontrivial=True, labels=[name, f'prec{prec}', f'batch={bsize}'])
    n = R.nparam(field, dim, rank, opt)
    if scalar:
        n = 1 if bsize is None else bsize
    if n == 0:
        return
    mod = R.module(dim, rank, field, opt, bsize, tdt)
    want_shape = ((n,) if bsize is None else (bsize, n)) if not scalar else (n,)
    ctx.require(tuple(mod.theta.shape) == want_shape, f'{name}: module parameter count = formula', f'{tuple(mod.theta.shape)} vs {want_shape}')
    ctx.require(mod.theta.dtype == tdt, f'{name}: module parameter dtype')
    r = ref.rng(case['prng'])
    theta = np.clip(mt.make_theta(r, want_shape[-1], want_shape[:-1], scale, pattern, R.min_norm), -cap, cap).astype(np.float32 if prec == 32 else np.float64)
    if conditioning(name, theta, dim, rank, field) > (1e3 if prec == 64 else 30):
        ctx.label('skipped: ill-conditioned theta for an orthonormalising map')
        return
    with torch.no_grad():
        mod.theta.copy_(torch.tensor(theta))
    out = mod()
    x = _np(out)
    fn = R.call(torch.tensor(theta), dim, rank, field, opt)
    if name == 'open_interval' and bsize is None:
        fn = fn[0]
    ctx.close(x, _np(fn), 0.0 if prec == 64 else 0.0, f'{name}: module forward = torch functional on the module parameters')
    fnp = R.call(theta, dim, rank, field, opt)
    if name == 'open_interval' and bsize is None:
        fnp = fnp[0]
    tnp = (1e-9 if prec == 64 else 2e-3) * (10 if scale >= 10 else 1)
    if name in ('stiefel_polar', 'stiefel_qr', 'stiefel_choleskyL'):
        tnp = 1e-6 if prec == 64 else 1e-2
    ctx.close(x, _np(fnp), tnp, f'{name}: module forward = numpy functional', max(1.0, float(np.abs(x).max())))
    if not scalar:
        want_c = (torch.complex64 if prec == 32 else torch.complex128) if field == 'complex' else tdt
        ctx.require(out.dtype == want_c, f'{name}: module output dtype follows the requested dtype', f'{out.dtype} vs {want_c}')
        check_constraint(ctx, name, x, dim, rank, field, opt, prec, theta, tag=' (module)')


# --------------------------------------------------------------------------------------------- class-only objects
@st.composite
def _strat_composed(draw, tier='quick'):
    kind = draw(st.sampled_from(['separable', 'channel', 'channel', 'stiefel_so', 'state', 'dm', 'gate', 'sym2psd', 'simplex_weight', 'abk']))
    return dict(kind=kind, dA=draw(st.integers(2, 3)), dB=draw(st.integers(2, 3)), k=draw(st.integers(1, 6)), batch=draw(st.sampled_from([None, None, 1, 2])),
                prec=draw(st.sampled_from([64, 64, 32])), field=draw(st.sampled_from(['real', 'complex'])),
                method=draw(st.sampled_from(['choleskyL', 'qr', 'polar', 'so-exp', 'so-cayley', 'euler'])), ret=draw(st.sampled_from(['kraus', 'choi'])),
                phase=draw(st.booleans()), scale=draw(st.sampled_from([0.1, 1.0, 3.0, 10.0])), prng=draw(st.integers(0, 2 ** 31)))


def _set_all(mod, r, scale):
    import torch
    with torch.no_grad():
        for p in mod.parameters():
            p.copy_(torch.tensor(r.normal(size=tuple(p.shape)) * scale, dtype=p.dtype))


def run_composed(ctx, case):
    import torch
    import numqi
    m = numqi.manifold
    kind, prec, b = case['kind'], case['prec'], case['batch']
    tol = 1e-9 if prec == 64 else 2e-3
    tdt = torch.float32 if prec == 32 else torch.float64
    cdt = torch.complex64 if prec == 32 else torch.complex128
    r = ref.rng(case['prng'])
    scale = case['scale']
    ctx.suffix = ' [f32]' if prec == 32 else ''
    ctx.note(klass=kind, desc=[kind, case['dA'], case['dB'], case['k'], b, prec, case['field'], case['method'], case['ret'], scale], nontrivial=True,
             labels=[kind, f'prec{prec}', f'batch={b}'] + ([case['method']] if kind in ('channel', 'stiefel_so') else []))
    dA, dB = case['dA'], case['dB']
    if kind == 'separable':
        num = max(2, case['k'])  # DiscreteProbability asserts dim>=2
        dt = cdt if case['field'] == 'complex' else tdt
        mod = m.SeparableDensityMatrix(dA, dB, num_cha=num, batch_size=b, dtype=dt)
        _set_all(mod, r, scale)
        out = mod()
        ctx.require(out.dtype == dt, 'SeparableDensityMatrix: output dtype', f'{out.dtype}')
        x = _np(out).astype(np.complex128)
        bs = 1 if b is None else b
        ctx.require(x.shape == (() if b is None else (b,)) + (dA, dB, dA, dB), 'SeparableDensityMatrix: shape', f'{x.shape}')
        X = x.reshape(bs, dA * dB, dA * dB)
        p = _np(mod.manifold_p()).reshape(bs, num).astype(np.float64)
        a = _np(mod.manifold_psiA()).reshape(bs, num, dA).astype(np.complex128)
        bb = _np(mod.manifold_psiB()).reshape(bs, num, dB).astype(np.complex128)
        ctx.close(p.sum(axis=1), np.ones(bs), tol, 'SeparableDensityMatrix: weights sum to one')
        ctx.require(np.all(p >= 0), 'SeparableDensityMatrix: weights non-negative')
        ctx.close(np.linalg.norm(a, axis=2), np.ones((bs, num)), tol, 'SeparableDensityMatrix: local vectors normalised (A)')
        ctx.close(np.linalg.norm(bb, axis=2), np.ones((bs, num)), tol, 'SeparableDensityMatrix: local vectors normalised (B)')
        want = np.einsum('zi,zia,zib,zic,zid->zabcd', p, a, bb, a.conj(), bb.conj()).reshape(bs, dA * dB, dA * dB)
        ctx.close(X, want, tol, 'SeparableDensityMatrix: convex mixture of product projectors')
        for Z in X:
            ctx.require(ref.min_eig(ref.partial_transpose(Z, [dA, dB], [1])) > -tol, 'SeparableDensityMatrix: PPT')
            ctx.close(np.trace(Z), 1, tol, 'SeparableDensityMatrix: trace one')
    elif kind == 'channel':
        din, dout = dA, dB
        cr = min(case['k'], din * dout)
        if cr * dout < din:
            cr = din
        mod = m.QuantumChannel(din, dout, choi_rank=cr, batch_size=b, method=case['method'], euler_with_phase=case['phase'], return_kind=case['ret'], dtype=cdt)
        _set_all(mod, r, min(scale, 3.0))
        out = _np(mod()).astype(np.complex128)
        bs = 1 if b is None else b
        if case['ret'] == 'kraus':
            ctx.require(out.shape == (() if b is None else (b,)) + (cr, dout, din), 'QuantumChannel: Kraus shape', f'{out.shape}')
            K = out.reshape(bs, cr, dout, din)
            ctx.close(np.einsum('zsai,zsaj->zij', K.conj(), K), np.broadcast_to(np.eye(din), (bs, din, din)), 5 * tol, 'QuantumChannel: complete Kraus set')
        else:
            ctx.require(out.shape == (() if b is None else (b,)) + (dout, din, dout, din), 'QuantumChannel: Choi shape', f'{out.shape}')
            C = out.reshape(bs, dout * din, dout * din)
            ctx.close(C, C.conj().transpose(0, 2, 1), 5 * tol, 'QuantumChannel: Choi Hermitian')
            for Z in C:
                ev = np.linalg.eigvalsh((Z + Z.conj().T) / 2)
                ctx.require(ev.min() > -5 * tol, 'QuantumChannel: Choi positive')
                ctx.require((ev > 1e-6 if prec == 64 else ev > 1e-2).sum() <= cr, 'QuantumChannel: Choi rank at most choi_rank')
            ctx.close(np.einsum('zaiaj->zij', out.reshape(bs, dout, din, dout, din)), np.broadcast_to(np.eye(din), (bs, din, din)), 5 * tol,
                      'QuantumChannel: trace preserving (Tr_out Choi = I)')
    elif kind == 'stiefel_so':
        d = dA + dB - 1
        rank = 1 + (case['k'] - 1) % d
        meth = 'so-exp' if case['method'] in ('choleskyL', 'qr', 'polar', 'so-exp') else 'so-cayley'
        dt = cdt if case['field'] == 'complex' else tdt
        mod = m.Stiefel(d, rank, batch_size=b, method=meth, dtype=dt)
        n = d * (d - 1) // 2 if case['field'] == 'real' else d * d - 1
        ctx.require(mod.theta.shape[-1] == n, 'Stiefel so-slice: parameter count')
        _set_all(mod, r, min(scale, 3.0))
        x = _np(mod()).astype(np.complex128)
        ctx.require(x.shape == (() if b is None else (b,)) + (d, rank), 'Stiefel so-slice: shape', f'{x.shape}')
        X = x.reshape(-1, d, rank)
        ctx.close(X.conj().transpose(0, 2, 1) @ X, np.broadcast_to(np.eye(rank), (len(X), rank, rank)), 5 * tol, f'Stiefel {meth}: X^dagger X = I')
        full = m.to_special_orthogonal_exp(mod.theta, d) if meth == 'so-exp' else m.to_special_orthogonal_cayley(mod.theta, d)
        ctx.close(x, _np(full)[..., :rank], 0.0, f'Stiefel {meth}: module = first columns of the functional map')
    elif kind == 'state':
        mod = m.quantum_state(dA * dB, batch_size=b, method=('quotient' if case['phase'] else 'coordinate'), dtype=cdt)
        _set_all(mod, r, scale)
        x = _np(mod()).astype(np.complex128)
        ctx.close(np.linalg.norm(x, axis=-1), np.ones(x.shape[:-1]), tol, 'quantum_state: unit norm')
    elif kind == 'dm':
        d = dA * dB
        rank = 1 + (case['k'] - 1) % d
        mod = m.density_matrix(d, rank, batch_size=b, method=('cholesky' if case['phase'] else 'ensemble'), dtype=cdt)
        _set_all(mod, r, scale)
        x = _np(mod())
        check_constraint(ctx, 'trace1psd', x, d, rank, 'complex', None, prec, np.zeros((() if b is None else (b,)) + (1,)), tag=' (density_matrix)')
    elif kind == 'gate':
        d = dA + dB - 2 + 1
        mod = m.quantum_gate(d, batch_size=b, method=('exp' if case['phase'] else 'cayley'), cayley_order=1 + case['k'] % 3, dtype=cdt)
        _set_all(mod, r, min(scale, 3.0))
        x = _np(mod()).astype(np.complex128).reshape(-1, d, d)
        ctx.close(x @ x.conj().transpose(0, 2, 1), np.broadcast_to(np.eye(d), x.shape), 5 * tol, 'quantum_gate: unitary')
        if case['phase']:
            ctx.close(np.linalg.det(x), np.ones(len(x)), 5 * tol * d, 'quantum_gate(exp): unit determinant')
    elif kind == 'sym2psd':
        d = dA * dB
        A = ref.rand_hermitian(r, d) * scale if case['field'] == 'complex' else (lambda z: (z + z.T) / 2)(r.normal(size=(d, d))) * scale
        for be in ('numpy', 'torch'):
            x = _np(m.symmetric_matrix_to_trace1PSD(torch.tensor(A) if be == 'torch' else A)).astype(np.complex128)
            ctx.close(x, x.conj().T, 1e-9, 'symmetric_matrix_to_trace1PSD: Hermitian')
            ctx.close(np.trace(x), 1, 1e-9, 'symmetric_matrix_to_trace1PSD: trace one')
            ctx.require(ref.min_eig(x) > -1e-9, 'symmetric_matrix_to_trace1PSD: PSD')
    elif kind == 'simplex_weight':
        d = dA + dB
        w = r.uniform(0.2, 3.0, size=d)
        mod = m.DiscreteProbability(d, batch_size=b, method=('softmax' if case['phase'] else 'sphere'), weight=w, dtype=tdt)
        _set_all(mod, r, scale)
        x = _np(mod()).astype(np.float64)
        ctx.require(np.all(x >= 0), 'weighted simplex: non-negative')
        ctx.close((x * w).sum(axis=-1), np.ones(x.shape[:-1]), tol, 'weighted simplex: sum_i w_i p_i = 1')
    else:  # abk
        k = 1 + case['k'] % 3
        if dA * dB ** k > 64:
            k = 2 if dA * dB ** 2 <= 64 else 1
        cls = m.ABkHermitian if case['phase'] else m.ABk2localHermitian
        mod = cls(dA, dB, k, dtype=tdt)
        _set_all(mod, r, scale)
        x = _np(mod()).astype(np.complex128)
        D = dA * dB ** k
        ctx.require(x.shape == (D, D), 'ABk Hermitian: shape', f'{x.shape}')
        ctx.close(x, x.conj().T, tol, 'ABk Hermitian: Hermitian', max(1.0, scale))
        T = x.reshape([dA] + [dB] * k + [dA] + [dB] * k)
        for i in range(k):
            for j in range(i + 1, k):
                perm = list(range(2 * k + 2))
                perm[1 + i], perm[1 + j] = perm[1 + j], perm[1 + i]
                perm[k + 2 + i], perm[k + 2 + j] = perm[k + 2 + j], perm[k + 2 + i]
                ctx.close(T.transpose(perm), T, tol, 'ABk Hermitian: invariant under permutations of the B copies', max(1.0, scale))
        if not case['phase']:
            AB = mod.to_AB()
            tot = np.zeros((D, D), dtype=np.complex128)
            for i in range(k):
                tot += ref.embed_dims(AB, [dA] + [dB] * k, [0, 1 + i])
            ctx.close(x, tot, tol, 'ABk2localHermitian: sum over copies of the AB operator', max(1.0, scale) * k)


SUBCHECKS = [
    SubCheck('functional', run_functional, strategy=_strat, examples=(2000, 20000), shards=(6, 16),
             floors={'torch': 0.3, 'prec32': 0.2, 'batch_ndim=2': 0.15, 'rank=dim': 0.2}),
    SubCheck('module', run_module, strategy=_strat_module, examples=(1000, 8000), shards=(4, 16)),
    SubCheck('composed', run_composed, strategy=_strat_composed, examples=(600, 4000), shards=(4, 16), floors={'channel': 0.1, 'separable': 0.05}),
]
