"""C04 - hand-written backward passes return the true gradient."""
import math
import numpy as np
from hypothesis import strategies as st

from ..core import SubCheck
from .. import ref
from . import c03

PROPERTY = 'C04'
RULE = ('hypothesis: circuit programs from the C03 grammar restricted to differentiable gates (parametrised, controlled-parametrised with 1-2 controls, re-used gate objects = shared '
        'parameters with different wiring, placeholder parameters bound to nn.Parameters incl. unused slots, mixture of trainable and constant gates, registered custom parametrised '
        'gate), parameters uniform in [0,2pi), losses |<t|U|s>|^2 and Re<t|U|s>; Knill-Laflamme inner product with op sequences of 1-3 possibly overlapping 1-2 qubit factors and a '
        'random complex cotangent; PSD square root / Pade logarithm / repeated square root on spectra {generic, exactly repeated, clustered (gap 1e-6), wide (cond 1e3), near deficient '
        '(lambda_min 1e-2)}, real/complex, batch () and (k,); losses built on them (polar Stiefel map, relative / von Neumann entropy with the Pade option, convex-roof models, VarQEC); '
        'the flat-parameter bridge on models with several parameters of different shapes, names and an unused parameter. Oracle: central finite differences of the forward value (step '
        '1e-5, tolerance 1e-6 max(1,|g|)); forward values themselves against dense references. Non-trivial = shared parameter / controlled-parametrised / placeholder / custom gate; '
        'spectrum class != generic; batch != (). Distinct = circuit signature / (function, spectrum class, field, batch).'
        ' Circuits also contain a two-qubit user-defined parametrised gate on descending wires, placeholder tensors that are plain data (no grad) and one gate name frozen in the wrapper; relative entropy is differentiated with respect to the first, the second and both arguments; code words also as non-contiguous torch views.'
        ' Constant gates re-parametrised after wrapping; two forward passes before one backward; sum of two circuits on one input; a kept hf_model_wrapper gradient compared after the next call; entropy of an unnormalised positive matrix.')
ASSUMPTIONS = ['exactly rank-deficient PSD inputs are outside the claim (the square root is not differentiable there); near-deficient inputs (lambda_min in [1e-2,1e-1]) are included',
               'finite differences: step 1e-5 in float64, compared at 1e-6*max(1,|g|_inf) (1e-5 for the Pade logarithm whose forward is itself an approximation)',
               'custom gates of kind "custom" need a user supplied grad_backward and are outside the claim']


def _nq():
    import numqi
    return numqi


def fd_grad(f, params, h=1e-5, order=2):
    """central finite differences (order 2, or the 4th order five-point stencil) of the scalar function f() with respect to every entry of the
    torch tensors in params (in place perturbation)"""
    import torch
    out = []
    with torch.no_grad():
        for p in params:
            g = np.zeros(p.numel())
            flat = p.view(-1)
            for i in range(p.numel()):
                old = flat[i].item()
                vals = {}
                for k in ((-1, 1) if order == 2 else (-2, -1, 1, 2)):
                    flat[i] = old + k * h
                    vals[k] = float(f())
                flat[i] = old
                if order == 2:
                    g[i] = (vals[1] - vals[-1]) / (2 * h)
                else:
                    g[i] = (8 * (vals[1] - vals[-1]) - (vals[2] - vals[-2])) / (12 * h)
            out.append(g.reshape(tuple(p.shape)))
    return out


def compare_grads(ctx, got, want, what, tol=1e-6):
    sc = max(1.0, max(float(np.abs(w).max()) if w.size else 0.0 for w in want))
    for i, (g, w) in enumerate(zip(got, want)):
        g = np.zeros_like(w) if g is None else np.asarray(g)
        ctx.close(g, w, tol, what, sc)


# --------------------------------------------------------------------------------------------- circuits
@st.composite
def _strat_circ(draw, tier='quick'):
    prog = draw(c03.strat_program(tier, max_n=4, max_len=8, differentiable_only=True))
    prog['loss'] = draw(st.sampled_from(['abs2', 'real']))
    prog['frozen'] = draw(st.integers(0, 7))
    prog['train_input'] = draw(st.booleans())
    if draw(st.booleans()):
        # the wrapper stacks trainable gates and placeholder gates of the same name into one tensor: generate that shape on purpose
        name = draw(st.sampled_from(['rx', 'ry', 'rz']))
        ang = st.floats(0, 2 * np.pi, exclude_max=True)
        n = prog['n']
        extra = [dict(op=name, q=[draw(st.integers(0, n - 1))], args=[draw(ang)]) for _ in range(draw(st.integers(1, 3)))]
        extra += [dict(op='placeholder', name=name, q=[draw(st.integers(0, n - 1))], key=draw(st.sampled_from(['', 'a'])), slot=draw(st.integers(0, 2)), args=[draw(ang)])
                  for _ in range(draw(st.integers(1, 2)))]
        for e in draw(st.permutations(extra)):
            prog['ops'].insert(draw(st.integers(0, len(prog['ops']))), e)
        # 'reuse' ops refer to positions: re-point them after the insertions is not needed because build() resolves src by index at run time (any earlier op is fine)
        for i, o in enumerate(prog['ops']):
            if o['op'] == 'reuse':
                o['src'] = o['src'] % max(1, i) if i > 0 else 0
        if prog['ops'][0]['op'] == 'reuse':
            prog['ops'][0] = dict(op='H', q=[0])
        prog['mixed_name'] = name
    return prog


def run_circuit(ctx, case):
    import torch
    nq = _nq()
    circ, resolved, n_used, sig, Pvals = c03.build(case, requires_grad=True)
    n = n_used
    # freeze a few trainable gates (mixture of trainable and constant gates)
    k = 0
    for g, _ in circ.gate_index_list:
        if hasattr(g, 'requires_grad_') and getattr(g, 'requires_grad', False) and not isinstance(getattr(g, 'args', None), nq.sim._internal._ParameterHolder):
            if (case['frozen'] >> (k % 3)) & 1 and k % 2 == 1:
                g.requires_grad_(False)
                sig.add('frozen')
            k += 1
    ctx.note(klass='circuit', desc=[n, sorted(sig), case['loss'], min(len(resolved), 6)],
             nontrivial=bool(sig & {'reuse', 'ctrl-param', 'placeholder', 'custom-unitary', 'multi-ctrl'}), labels=sorted(sig) + [case['loss']] + (['trainable+placeholder same name'] if case.get('mixed_name') else []))
    r = ref.rng(case['prng'])
    tvec = torch.tensor(ref.rand_state(r, 2 ** n))
    s_np = ref.rand_state(r, 2 ** n)
    train_input = bool(case.get('train_input'))
    # the input state may itself be trainable (chained circuits): its gradient is pulled back through the whole circuit
    s_re = torch.tensor(s_np.real.copy(), requires_grad=train_input)
    s_im = torch.tensor(s_np.imag.copy(), requires_grad=train_input)
    # placeholder tensors are either trainable parameters or plain data (requires_grad=False, "data encoding" next to trainable gates)
    data_P = bool(case['frozen'] & 4)
    if data_P:
        P = {key: torch.tensor(np.array(v, dtype=np.float64)) for key, v in Pvals.items()}
    else:
        P = {key: torch.nn.Parameter(torch.tensor(np.array(v, dtype=np.float64))) for key, v in Pvals.items()}

    class M(torch.nn.Module):
        def __init__(self):
            super().__init__()
            self.ct = nq.sim.CircuitTorchWrapper(circ)
            self.P = torch.nn.ParameterDict({('root' if k_ == '' else k_): v for k_, v in P.items()}) if not data_P else None

        def forward(self):
            if P:
                kw = {k_: v for k_, v in P.items() if k_ != ''}
                if '' in P:
                    self.ct.setP(P[''], **kw)
                else:
                    self.ct.setP(**kw)
            q = self.ct(torch.complex(s_re, s_im))
            a = torch.vdot(tvec, q)
            return (a * a.conj()).real if case['loss'] == 'abs2' else a.real
    model = M()
    if P and data_P:
        ctx.label('placeholder = data tensor (no grad)')
    # freeze one whole stacked parameter tensor of the wrapper (by gate name) while tensors of other names stay trainable
    names = sorted(model.ct.theta.keys()) if hasattr(model.ct, 'theta') else []
    if len(names) >= 2 and (case['frozen'] & 2):
        model.ct.theta[names[case['prng'] % len(names)]].requires_grad_(False)
        ctx.label('one gate name frozen in the wrapper')
    params = [p for p in model.parameters() if p.requires_grad] + ([s_re, s_im] if train_input else [])
    if train_input:
        sig.add('trainable input state')
        ctx.label('trainable input state')
    if not params:
        ctx.label('no trainable parameter')
        return
    # forward value against the dense reference (C03 oracle) at the initial parameters
    U = c03.ref_unitary(resolved, n)
    amp = np.vdot(tvec.numpy(), U @ s_np)
    want_f = abs(amp) ** 2 if case['loss'] == 'abs2' else amp.real
    loss = model()
    ctx.close(float(loss), want_f, 1e-10, 'forward value = dense reference')
    # move every parameter to a generated point in [0, 2pi) and compare the gradient with finite differences of the forward value
    with torch.no_grad():
        for p in params:
            if p is not s_re and p is not s_im:
                p.copy_(torch.tensor(r.uniform(0, 2 * np.pi, size=tuple(p.shape))))
    for p in params:
        p.grad = None
    loss = model()
    # differentiate the same forward pass twice: the second result must equal the first (no state carried over between backward passes)
    g1 = torch.autograd.grad(loss, params, retain_graph=True, allow_unused=True)
    g2 = torch.autograd.grad(loss, params, retain_graph=True, allow_unused=True)
    for x, y in zip(g1, g2):
        if x is not None:
            ctx.close(y, x, 0, 'two backward passes through one forward pass give the same gradient')
    loss.backward()
    got = [None if p.grad is None else p.grad.detach().numpy().copy() for p in params]
    want = fd_grad(lambda: model(), params)
    compare_grads(ctx, got, want, 'circuit gradient = finite differences of the forward value')
    ctx.tick(sum(p.numel() for p in params))

    def lossf(q):
        a = torch.vdot(tvec, q)
        return (a * a.conj()).real if case['loss'] == 'abs2' else a.real

    def set_p(ct, Pd):
        if Pd:
            kw = {k_: v for k_, v in Pd.items() if k_ != ''}
            if '' in Pd:
                ct.setP(Pd[''], **kw)
            else:
                ct.setP(**kw)
    gate_params = [p for p in model.parameters() if p.requires_grad]
    # (A) the same wrapper evaluated for two data points (placeholders = data) before ONE backward pass
    if P and data_P and gate_params and case['prng'] % 2 == 0:
        P2 = {k_: v + 0.41 for k_, v in P.items()}

        def f2():
            set_p(model.ct, P)
            q1 = model.ct(torch.complex(s_re, s_im))
            set_p(model.ct, P2)
            q2 = model.ct(torch.complex(s_re, s_im))
            return lossf(q1) + 0.7 * lossf(q2)
        for p_ in params:
            p_.grad = None
        f2().backward()
        got2 = [None if p_.grad is None else p_.grad.detach().numpy().copy() for p_ in params]
        compare_grads(ctx, got2, fd_grad(f2, params), 'two forward passes with different placeholder data before one backward: gradient = finite differences')
        ctx.label('two passes, one backward')
    # (C) constant (requires_grad=False) parametrised gates re-parametrised through set_args AFTER the wrapper was built: whatever matrices the forward pass
    #     uses, the backward pass must differentiate that same forward pass
    frozen_gates = [g_ for g_, _ in circ.gate_index_list if isinstance(g_, nq.sim.ParameterGate) and not getattr(g_, 'requires_grad', False)
                    and getattr(g_, 'kind', '') != 'custom' and not isinstance(g_.args, nq.sim._internal._ParameterHolder)]
    if frozen_gates and params and case['prng'] % 3 == 2:
        done = set()
        for g_ in frozen_gates:
            if id(g_) not in done:
                done.add(id(g_))
                g_.set_args(tuple(float(x) + 0.53 for x in g_.args))
        for p_ in params:
            p_.grad = None
        model().backward()
        got4 = [None if p_.grad is None else p_.grad.detach().numpy().copy() for p_ in params]
        compare_grads(ctx, got4, fd_grad(lambda: model(), params), 'after set_args on a constant gate of a wrapped circuit: gradient = finite differences of the forward value')
        ctx.label('constant gate re-parametrised')
    # (B) two circuits applied to the same input and added: autograd hands ONE gradient tensor to both branches
    if case['prng'] % 4 == 1 and 'custom-forward' not in sig:
        import copy
        case2 = copy.deepcopy({k_: v for k_, v in case.items()})

        def bump(ops):
            for o in ops:
                if o['op'] == 'sub':
                    bump(o['ops'])
                elif 'args' in o:
                    o['args'] = [x + 0.23 for x in o['args']]
        bump(case2['ops'])
        circ2, _, n2, _, Pvals2 = c03.build(case2, requires_grad=True)
        if n2 == n:
            ct2 = nq.sim.CircuitTorchWrapper(circ2)
            Pd2 = {k_: torch.tensor(np.array(v, dtype=np.float64)) for k_, v in Pvals2.items()}
            params2 = [p_ for p_ in ct2.parameters() if p_.requires_grad]

            def f3():
                set_p(model.ct, P)
                set_p(ct2, Pd2)
                s_ = torch.complex(s_re, s_im)
                return lossf(model.ct(s_) + ct2(s_))
            allp = params + params2
            if allp:
                for p_ in allp:
                    p_.grad = None
                f3().backward()
                got3 = [None if p_.grad is None else p_.grad.detach().numpy().copy() for p_ in allp]
                compare_grads(ctx, got3, fd_grad(f3, allp), 'sum of two circuits on the same input (shared output gradient): gradient = finite differences')
                ctx.label('two branches')


# --------------------------------------------------------------------------------------------- Knill-Laflamme inner product
@st.composite
def _strat_kl(draw, tier='quick'):
    n = draw(st.integers(2, 4))
    K = draw(st.sampled_from([2, 4]))
    nterm = draw(st.integers(1, 4))
    terms = []
    for _ in range(nterm):
        L = draw(st.sampled_from([0, 1, 1, 2, 3]))  # 0: the empty product (identity, the overlap <i|j> itself)
        fac = []
        for _ in range(L):
            k = draw(st.integers(1, 2))
            idx = list(draw(st.permutations(range(n)))[:k])
            fac.append(idx)
        terms.append(fac)
    return dict(n=n, K=K, terms=terms, prng=draw(st.integers(0, 2 ** 31)))


def run_kl(ctx, case):
    import torch
    import itertools
    nq = _nq()
    n, K = case['n'], case['K']
    overlap = any(len(set(a) & set(b)) > 0 for t in case['terms'] for a, b in itertools.combinations(t, 2))
    ctx.note(klass='kl', desc=[n, K, [[len(f) for f in t] for t in case['terms']], overlap], nontrivial=overlap or any(len(t) > 1 for t in case['terms']),
             labels=['overlapping factors' if overlap else 'disjoint factors'])
    r = ref.rng(case['prng'])
    op_list = [[(list(idx), ref.rand_complex(r, 2 ** len(idx), 2 ** len(idx))) for idx in t] for t in case['terms']]
    transposed = bool(case['prng'] % 3 == 1)  # code words held column-wise and handed over as a (non-contiguous) transposed view
    if transposed:
        a_ = torch.tensor(r.normal(size=(2 ** n, K)), requires_grad=True)
        b_ = torch.tensor(r.normal(size=(2 ** n, K)), requires_grad=True)
        ctx.label('non-contiguous code words')
    else:
        a_ = torch.tensor(r.normal(size=(K, 2 ** n)), requires_grad=True)
        b_ = torch.tensor(r.normal(size=(K, 2 ** n)), requires_grad=True)
    cot = torch.tensor(ref.rand_complex(r, len(op_list), K, K))

    a, b = (a_.T, b_.T) if transposed else (a_, b_)

    def f():
        a, b = (a_.T, b_.T) if transposed else (a_, b_)
        q = torch.complex(a, b)
        ip = nq.qec.knill_laflamme_inner_product(q, op_list)
        return (ip * cot).sum().real + (ip.abs() ** 2).sum() * 0.1
    # forward agrees with the numpy path and with the dense reference
    q_np = (a.detach().numpy() + 1j * b.detach().numpy())
    ip_t = nq.qec.knill_laflamme_inner_product(torch.complex(a, b), op_list).detach().numpy()
    ip_n = nq.qec.knill_laflamme_inner_product(q_np, op_list)
    ctx.close(ip_t, ip_n, 1e-12, 'torch forward = numpy forward', max(1.0, np.abs(ip_n).max()))
    want = []
    for t in op_list:
        Mx = np.eye(2 ** n, dtype=np.complex128)
        for idx, g in t:
            Mx = Mx @ ref.embed(g, n, idx)
        want.append(q_np.conj() @ (Mx @ q_np.T))
    # op_sequence is applied factor after factor to the state: the last factor acts last
    want2 = []
    for t in op_list:
        Mx = np.eye(2 ** n, dtype=np.complex128)
        for idx, g in t:
            Mx = ref.embed(g, n, idx) @ Mx
        want2.append(q_np.conj() @ (Mx @ q_np.T))
    ctx.close(ip_n, np.stack(want2), 1e-9, 'forward = <i| (factors applied in sequence) |j>', max(1.0, np.abs(ip_n).max()))
    loss = f()
    loss.backward()
    got = [a_.grad.numpy().copy(), b_.grad.numpy().copy()]
    wantg = fd_grad(f, [a_, b_])
    compare_grads(ctx, got, wantg, 'Knill-Laflamme inner product gradient = finite differences')


# --------------------------------------------------------------------------------------------- PSD matrix functions
SPECTRA = ['generic', 'repeated', 'clustered', 'wide', 'near_deficient', 'deficient_sibling']


@st.composite
def _strat_mf(draw, tier='quick'):
    return dict(fn=draw(st.sampled_from(['sqrtm', 'sqrtm', 'logm', 'sqrtm_repeat'])), d=draw(st.integers(2, 5)), spec=draw(st.sampled_from(SPECTRA)),
                field=draw(st.sampled_from(['real', 'complex'])), batch=draw(st.sampled_from([0, 0, 2, 3])), rep=draw(st.integers(1, 4)), prng=draw(st.integers(0, 2 ** 31)))


def spectrum(r, d, spec):
    if spec == 'generic':
        return np.sort(r.uniform(0.2, 2.0, size=d))
    if spec == 'repeated':
        v = r.uniform(0.3, 2.0, size=(d + 1) // 2)
        return np.sort(np.repeat(v, 2)[:d])
    if spec == 'clustered':
        v = r.uniform(0.3, 2.0, size=(d + 1) // 2)
        w = np.repeat(v, 2)[:d]
        w[1::2] += 1e-6
        return np.sort(w)
    if spec == 'wide':
        return np.sort(10 ** r.uniform(-2, 1, size=d))
    w = np.sort(r.uniform(0.2, 2.0, size=d))
    w[0] = 10 ** r.uniform(-2, -1)
    return w


def run_mf(ctx, case):
    import torch
    nq = _nq()
    fn, d, spec, field = case['fn'], case['d'], case['spec'], case['field']
    nb = max(1, case['batch'])
    ctx.note(klass=fn, desc=[fn, spec, field, case['batch'], d], nontrivial=(spec != 'generic' or case['batch'] > 0), labels=[fn, spec, field, f'batch={case["batch"]}'])
    r = ref.rng(case['prng'])
    sibling = (spec == 'deficient_sibling')
    if sibling:
        # a batch whose FIRST element is exactly rank deficient (outside the claim) next to full-rank elements (inside the claim):
        # only the gradient with respect to the full-rank elements is judged
        nb = max(2, nb)
        case = dict(case, batch=nb)
        if fn == 'logm':
            fn = 'sqrtm'
    A0 = []
    for ib in range(nb):
        V = ref.rand_unitary(r, d) if field == 'complex' else ref.rand_orthogonal(r, d).astype(np.complex128)
        w = spectrum(r, d, 'generic' if sibling else spec)
        if sibling and ib == 0:
            w[0] = 0.0
            A = (V * w) @ V.conj().T
            # make the smallest eigenvalue exactly non-positive so that the library clamps it to exactly zero
            A = A - 1e-15 * np.eye(d)
        else:
            A = (V * w) @ V.conj().T
        A0.append(A)
    A0 = np.stack(A0)
    if field == 'real':
        A0 = A0.real
    A0t = torch.tensor(A0 if case['batch'] else A0[0])
    shape = tuple(A0t.shape)
    Pr = torch.zeros(shape, dtype=torch.float64, requires_grad=True)
    Pi = torch.zeros(shape, dtype=torch.float64, requires_grad=True)
    W = torch.tensor(ref.rand_complex(r, *shape) if field == 'complex' else r.normal(size=shape))
    if fn == 'sqrtm':
        op = nq._torch_op.PSDMatrixSqrtm.apply
    elif fn == 'logm':
        op = nq._torch_op.get_PSDMatrixLogm(6, 8)
    else:
        rep = case['rep']
        op = lambda x: nq._torch_op._PSDMatrixSqrtmRepeat.apply(x, rep)

    def build():
        if field == 'complex':
            P = torch.complex(Pr, Pi)
            return A0t + P + P.transpose(-1, -2).conj()
        return A0t + Pr + Pr.transpose(-1, -2)

    def f():
        out = op(build())
        return (out * W).sum().real
    # forward value against an eigen-decomposition reference
    out = op(build()).detach().numpy().reshape(nb, d, d)
    for i in range(1 if sibling else 0, nb):
        w, v = np.linalg.eigh(A0[i])
        if fn == 'sqrtm':
            want = (v * np.sqrt(w)) @ v.conj().T
            tolf = 1e-10
        elif fn == 'logm':
            want = (v * np.log(w)) @ v.conj().T
            tolf = 1e-7
        else:
            want = (v * w ** (0.5 ** case['rep'])) @ v.conj().T
            tolf = 1e-10
        ctx.close(out[i], want, tolf, f'{fn}: forward value', max(1.0, np.abs(want).max()))
    params = [Pr, Pi] if field == 'complex' else [Pr]
    loss = f()
    loss.backward()
    got = [p.grad.numpy().copy() for p in params]
    want = fd_grad(f, params, h=5e-5, order=4)  # spectra down to 1e-2 make the third derivative large: use the five-point stencil
    if sibling:
        got = [g[1:] for g in got]
        want = [w_[1:] for w_ in want]
    compare_grads(ctx, got, want, f'{fn}: gradient = finite differences', 1e-6)


# --------------------------------------------------------------------------------------------- losses built on the custom operators
@st.composite
def _strat_loss(draw, tier='quick'):
    return dict(kind=draw(st.sampled_from(['polar', 'relent', 'relent_first', 'relent_both', 'entropy', 'entropy_unnorm', 'eof_model', 'concurrence_model', 'varqec', 'flat_bridge', 'flat_bridge'])), d=draw(st.integers(2, 4)),
                r=draw(st.integers(1, 4)), field=draw(st.sampled_from(['real', 'complex'])), prng=draw(st.integers(0, 2 ** 31)))


def run_loss(ctx, case):
    import torch
    nq = _nq()
    kind, d = case['kind'], case['d']
    rk = min(case['r'], d)
    r = ref.rng(case['prng'])
    ctx.note(klass=kind, desc=[kind, d, rk, case['field']], nontrivial=True, labels=[kind])
    cdt = torch.complex128 if case['field'] == 'complex' else torch.float64
    if kind == 'polar':
        man = nq.manifold.Stiefel(d + 1, rk, method='polar', dtype=cdt)
        W = torch.tensor(ref.rand_complex(r, d + 1, rk))
        f = lambda: (man() * W).sum().real
        params = [man.theta]
    elif kind in ('relent', 'relent_first', 'relent_both', 'entropy'):
        man = nq.manifold.Trace1PSD(d, dtype=torch.complex128)
        rho = torch.tensor(ref.rand_dm(r, d))
        params = [man.theta]
        if kind == 'relent':
            f = lambda: nq.utils.get_relative_entropy(rho, man(), None, ('pade', 6, 8))
        elif kind == 'relent_first':  # S(rho(theta) || sigma): the Tr rho log rho term is computed inside and depends on theta
            f = lambda: nq.utils.get_relative_entropy(man(), rho, None, ('pade', 6, 8))
        elif kind == 'relent_both':
            man2 = nq.manifold.Trace1PSD(d, dtype=torch.complex128)
            f = lambda: nq.utils.get_relative_entropy(man(), man2(), None, ('pade', 6, 8))
            params = [man.theta, man2.theta]
        else:
            f = lambda: nq.utils.get_von_neumann_entropy(man(), ('pade', 6, 8))
    elif kind == 'entropy_unnorm':
        # -Tr(A log A) of a positive matrix A = X X^dagger whose trace is NOT fixed by the parametrisation
        Xr = torch.tensor(r.normal(size=(d, d)) * 0.5 + np.eye(d), requires_grad=True)
        Xi = torch.tensor(r.normal(size=(d, d)) * 0.5, requires_grad=True)

        def f():
            X = torch.complex(Xr, Xi)
            return nq.utils.get_von_neumann_entropy(X @ X.conj().T / d, ('pade', 6, 8))
        params = [Xr, Xi]
    elif kind in ('eof_model', 'concurrence_model'):
        rho = ref.rand_dm(r, 4, rk)
        cls = nq.entangle.EntanglementFormationModel if kind == 'eof_model' else nq.entangle.ConcurrenceModel
        model = cls(2, 2, max(2, rk) + 1, rank=rk)
        model.set_density_matrix(rho)
        f = lambda: model()
        params = list(model.parameters())
    elif kind == 'varqec':
        nqb = 3
        errs = nq.qec.make_error_list(nqb, 2)
        if case['prng'] % 2:
            model = nq.qec.VarQECUnitary(nqb, 2, errs, loss_type=('L2' if case['r'] % 2 else 'L1'))
        else:
            circ = nq.sim.Circuit(default_requires_grad=True)
            for q in range(nqb):
                circ.u3(q, tuple(r.uniform(0, 6, size=3)))
            circ.cnot(0, 1)
            circ.ry(2, r.uniform(0, 6))
            circ.crz(1, 2, r.uniform(0, 6))
            circ.rzz((0, 2), r.uniform(0, 6))
            model = nq.qec.VarQEC(circ, 2, errs, loss_type='L2')
        f = lambda: model()
        params = list(model.parameters())
    else:
        class Multi(torch.nn.Module):
            def __init__(self):
                super().__init__()
                self.zeta = torch.nn.Parameter(torch.tensor(r.normal(size=(2, 3))))
                self.alpha = torch.nn.Parameter(torch.tensor(r.normal(size=(4,))))
                self.mid = torch.nn.Parameter(torch.tensor(r.normal(size=(1,))))
                self.unused = torch.nn.Parameter(torch.tensor(r.normal(size=(2,))))
                self.frozen = torch.nn.Parameter(torch.tensor(r.normal(size=(3,))), requires_grad=False)
                self.c = torch.tensor(r.normal(size=(2, 3)))

            def forward(self):
                return (torch.sin(self.zeta) * self.c).sum() + (self.alpha ** 3).sum() * self.mid[0] + torch.cos(self.mid[0] * self.alpha[1]) + self.frozen.sum()
        model = Multi()
        if case['prng'] % 2 == 0:
            # the documented hook for models with their own differentiation: grad_backward(loss) fills .grad (here through autograd, accumulating like torch does)
            model.grad_backward = lambda loss: loss.backward()
            ctx.label('model with grad_backward hook')
        theta0 = nq.optimize.get_model_flat_parameter(model)
        names = sorted(k for k, v in model.named_parameters() if v.requires_grad)
        want_flat = np.concatenate([dict(model.named_parameters())[k].detach().numpy().reshape(-1) for k in names])
        ctx.close(theta0, want_flat, 0, 'flat parameter vector = parameters sorted by name')
        theta = r.normal(size=theta0.shape)
        hf = nq.optimize.hf_model_wrapper(model)
        fval, grad = hf(theta)
        ctx.close(nq.optimize.get_model_flat_parameter(model), theta, 0, 'set_model_flat_parameter round trip')
        ctx.close(fval, float(model()), 1e-12, 'hf_model_wrapper value = model() at theta')
        ctx.require(grad.shape == theta.shape, 'flat gradient has the shape of the flat parameter vector')
        fdg = np.array([(hf(theta + 1e-5 * e, tag_grad=False) - hf(theta - 1e-5 * e, tag_grad=False)) / 2e-5 for e in np.eye(len(theta))])
        ctx.close(grad, fdg, 1e-6, 'hf_model_wrapper gradient = finite differences in the flat order', max(1.0, np.abs(fdg).max()))
        fval2, grad2 = hf(theta)
        ctx.close(grad2, grad, 0, 'gradients are not accumulated between calls')
        return
    with torch.no_grad():
        for p in params:
            p.copy_(torch.tensor(r.normal(size=tuple(p.shape)) * 0.7, dtype=p.dtype))
    for p in params:
        p.grad = None
    loss = f()
    loss.backward()
    got = [None if p.grad is None else p.grad.detach().numpy().copy() for p in params]
    want = fd_grad(f, params)
    compare_grads(ctx, got, want, f'{kind}: gradient = finite differences', 1e-5 if kind in ('relent', 'relent_first', 'relent_both', 'entropy', 'entropy_unnorm') else 1e-6)
    # the flat bridge on the same loss
    if kind in ('eof_model', 'concurrence_model', 'varqec'):
        hf = nq.optimize.hf_model_wrapper(model)
        th = nq.optimize.get_model_flat_parameter(model)
        fv, gr = hf(th)
        gr_keep = np.array(gr, copy=True)
        hf(th + 0.37)  # another evaluation of the same wrapper: the gradient handed out before belongs to the caller
        ctx.close(gr, gr_keep, 0, f'{kind}: a gradient returned by hf_model_wrapper is not overwritten by the next call')
        fdg = np.array([(hf(th + 1e-5 * e, tag_grad=False) - hf(th - 1e-5 * e, tag_grad=False)) / 2e-5 for e in np.eye(len(th))])
        ctx.close(gr, fdg, 1e-6, f'{kind}: hf_model_wrapper gradient = finite differences', max(1.0, np.abs(fdg).max()))


SUBCHECKS = [
    SubCheck('circuits', run_circuit, strategy=_strat_circ, examples=(120, 1500), shards=(4, 16), floors={'reuse': 0.1, 'ctrl-param': 0.08, 'placeholder': 0.08}),
    SubCheck('knill_laflamme', run_kl, strategy=_strat_kl, examples=(40, 400), shards=(2, 16), floors={'overlapping factors': 0.2}),
    SubCheck('matrix_functions', run_mf, strategy=_strat_mf, examples=(120, 1200), shards=(3, 16)),
    SubCheck('losses', run_loss, strategy=_strat_loss, examples=(40, 400), shards=(3, 16)),
]
