"""C12 - channel representations are equivalent and channels are contractive."""
import math
import numpy as np
from hypothesis import strategies as st

from ..core import SubCheck
from .. import ref

PROPERTY = 'C12'
RULE = ('hypothesis: channels built by vf (not by numqi.random): dim_in, dim_out 1..5, Kraus terms ceil(din/dout)..din*dout, real/complex, kinds '
        'generic / isometry / unitary / replacer / numqi.random generators; input states full-rank / low-rank / pure with complex off-diagonals; '
        'numpy and torch where offered; built-in noise channels with rate in [0,1] incl. both end points. Oracle: reference action sum K rho K^dagger '
        'by loops, explicit Choi/super-operator index formulas, Bloch vectors via the textbook Gell-Mann basis, independent fidelity / trace-distance / '
        'entropy formulas, metamorphic data-processing inequalities. Non-trivial = din != dout or rank-deficient Choi or real channel or pure/low-rank '
        'input; distinct = (din, dout, terms, field, channel kind, input kind).'
        ' Kraus/Choi/super operators and states also in other memory layouts; relative entropy for every pair (non-negative; large when rho has weight outside supp sigma); channels given as callables that return their argument; numqi draws admitted only if trace preserving to 1e-12.'
        ' Bloch map of state preparations (dim_in = 1) and of real-dtype Choi operators; second-call clause for the built-in noise channels.')
ASSUMPTIONS = ['fidelity-type quantities (square roots of eigenvalues) are compared at 1e-6, linear identities at 1e-10',
               'relative-entropy monotonicity is checked only for full-rank sigma with condition number <= 1e6 (for support-deficient sigma the true value is +inf)',
               'Kraus sets are compared through their action and their Choi operator, never element-wise']


def _nq():
    import numqi
    return numqi


def make_kraus(r, din, dout, terms, field, kind):
    if kind == 'unitary':
        U = ref.rand_unitary(r, din) if field == 'complex' else ref.rand_orthogonal(r, din).astype(np.complex128)
        return U[None]
    if kind == 'isometry':
        U = ref.rand_unitary(r, dout) if field == 'complex' else ref.rand_orthogonal(r, dout).astype(np.complex128)
        return U[:, :din][None]
    if kind == 'replacer':
        sig = ref.rand_dm(r, dout, min(dout, 2))
        w, v = np.linalg.eigh(sig)
        ks = []
        for j in range(dout):
            if w[j] > 1e-12:
                for k in range(din):
                    m = np.zeros((dout, din), dtype=np.complex128)
                    m[:, k] = math.sqrt(w[j]) * v[:, j]
                    ks.append(m)
        return np.stack(ks)
    z = r.normal(size=(terms, dout, din)) + (1j * r.normal(size=(terms, dout, din)) if field == 'complex' else 0)
    z = z.astype(np.complex128)
    # orthonormalise the stacked (terms*dout) x din matrix by QR: complete to machine precision whatever the conditioning of the draw
    # (normalising with the inverse square root of the Gram matrix loses eps*cond^2 and produced a harness error in the thorough tier)
    q, _ = np.linalg.qr(z.reshape(terms * dout, din))
    return q.reshape(terms, dout, din)


def make_state(r, d, kind):
    if kind == 'pure' or d == 1:
        v = ref.rand_state(r, d)
        return np.outer(v, v.conj())
    if kind == 'low':
        return ref.rand_dm(r, d, max(1, d // 2))
    return ref.rand_dm(r, d, d)


def apply_ref(K, rho):
    out = np.zeros((K.shape[1], K.shape[1]), dtype=np.complex128)
    for k in K:
        out += k @ rho @ k.conj().T
    return out


@st.composite
def _strat_chan(draw, tier='quick'):
    din = draw(st.integers(1, 5))
    kind = draw(st.sampled_from(['generic', 'generic', 'generic', 'isometry', 'unitary', 'replacer', 'numqi_kraus', 'numqi_choi']))
    if kind == 'unitary':
        dout = din
    elif kind == 'isometry':
        dout = draw(st.integers(din, 5))
    else:
        dout = draw(st.integers(1, 5))
    lo = -(-din // dout)
    terms = draw(st.one_of(st.sampled_from([lo, din * dout]), st.integers(lo, din * dout)))
    return dict(din=din, dout=dout, terms=terms, field=draw(st.sampled_from(['complex', 'real'])), kind=kind,
                state=draw(st.sampled_from(['full', 'low', 'pure'])), prng=draw(st.integers(0, 2 ** 31)))


def _channel(case, r):
    nq = _nq()
    din, dout, terms, field, kind = case['din'], case['dout'], case['terms'], case['field'], case['kind']
    if kind == 'numqi_kraus':
        K = nq.random.rand_kraus_op(terms, din, dout, tag_complex=(field == 'complex'), seed=int(r.integers(0, 2 ** 31))).astype(np.complex128)
    elif kind == 'numqi_choi':
        rank = min(terms, din * dout)
        if rank * dout < din:
            rank = din * dout
        choi = nq.random.rand_choi_op(din, dout, rank=rank, seed=int(r.integers(0, 2 ** 31)))
        w, v = np.linalg.eigh(choi)
        keep = w > 1e-12
        K = (v[:, keep] * np.sqrt(w[keep])).reshape(din, dout, -1).transpose(2, 1, 0)
    else:
        K = make_kraus(r, din, dout, terms, field, kind)
    return np.ascontiguousarray(K)


def run_repr(ctx, case):
    import torch
    nq = _nq()
    ch = nq.channel
    din, dout, kind, field = case['din'], case['dout'], case['kind'], case['field']
    r = ref.rng(case['prng'])
    K = _channel(case, r)
    nt = (din != dout) or (K.shape[0] * 1 < din * dout) or field == 'real' or case['state'] != 'full'
    ctx.note(klass=kind, desc=[din, dout, K.shape[0], field, kind, case['state']], nontrivial=nt,
             labels=[kind, field, case['state'], 'din!=dout' if din != dout else 'din=dout', f'din={din}'])
    I = sum(k.conj().T @ k for k in K)
    if np.abs(I - np.eye(din)).max() > (1e-12 if kind.startswith('numqi') else 1e-9):  # the clauses below are judged at 1e-10: the channel itself must be better than that
        if kind.startswith('numqi'):
            # validity of the generators is C10's business (incl. nearly singular draws, see DESIGN section 11); here such a draw is not a usable channel
            ctx.inconclusive_case('numqi.random draw not trace preserving to 1e-12')
            return
        from ..core import HarnessError
        raise HarnessError('vf Kraus construction not trace preserving')
    rho = make_state(r, din, case['state'])
    out = apply_ref(K, rho)
    tol = 1e-10
    layout = ref.LAYOUTS[(case['prng'] // 7) % len(ref.LAYOUTS)]
    ctx.label('layout=' + layout)
    K, rho = ref.with_layout(K, layout), ref.with_layout(rho, layout)  # same values in another memory layout
    K_before, rho_before = K.copy(), rho.copy()
    # explicit Choi in (in,out,in,out) and super-operator (out*out, in*in)
    choi_ref = np.einsum('sai,sbj->iajb', K, K.conj()).reshape(din * dout, din * dout)
    super_ref = np.einsum('sai,sbj->abij', K, K.conj()).reshape(dout * dout, din * din)
    ctx.close(ch.apply_kraus_op(K, rho), out, tol, 'apply_kraus_op = sum K rho K^dagger')
    choi = ch.kraus_op_to_choi_op(K)
    ctx.close(choi, choi_ref, tol, 'kraus_op_to_choi_op = sum_ij |i><j| (x) Phi(|i><j|)')
    ctx.close(ch.apply_choi_op(choi, rho), out, tol, 'apply_choi_op')
    sup = ch.kraus_op_to_super_op(K)
    ctx.close(sup, super_ref, tol, 'kraus_op_to_super_op')
    ctx.close(ch.apply_super_op(sup, rho), out, tol, 'apply_super_op')
    choi_ref_c, super_ref_c = choi_ref, super_ref
    choi_ref, super_ref = ref.with_layout(choi_ref, layout), ref.with_layout(super_ref, layout)
    ctx.close(ch.choi_op_to_super_op(choi_ref, din), super_ref, tol, 'choi_op_to_super_op')
    ctx.close(ch.super_op_to_choi_op(super_ref), choi_ref, tol, 'super_op_to_choi_op')
    ctx.close(ch.super_op_to_choi_op(ch.choi_op_to_super_op(choi_ref, din)), choi_ref, tol, 'choi->super->choi = id')
    ctx.close(ch.choi_op_to_super_op(ch.super_op_to_choi_op(super_ref), din), super_ref, tol, 'super->choi->super = id')
    # properties of the Choi operator
    ctx.require(ref.min_eig(choi) > -1e-10, 'Choi operator PSD')
    ctx.close(np.einsum('iaja->ij', np.asarray(choi).reshape(din, dout, din, dout)), np.eye(din), tol, 'Tr_out Choi = I')
    # back to Kraus
    rank = int((np.linalg.eigvalsh(choi_ref) > 1e-10).sum())
    for name, K2 in [('choi_op_to_kraus_op', ch.choi_op_to_kraus_op(choi_ref, din)), ('super_op_to_kraus_op', ch.super_op_to_kraus_op(super_ref)),
                     ('hf_channel_to_kraus_op', ch.hf_channel_to_kraus_op(lambda x: apply_ref(K, x), din))]:
        ctx.require(K2.ndim == 3 and K2.shape[1:] == (dout, din), f'{name} shape', f'{K2.shape}')
        ctx.close(apply_ref(K2, rho), out, 1e-7 if name.startswith('hf') else 1e-9, f'{name}: same action')
        ctx.close(np.einsum('sai,sbj->iajb', K2, K2.conj()).reshape(din * dout, din * dout), choi_ref, 1e-7 if name.startswith('hf') else 1e-9,
                  f'{name}: same Choi operator')
        if not name.startswith('hf'):
            ctx.require(K2.shape[0] == rank, f'{name}: number of terms = Choi rank', f'{K2.shape[0]} vs {rank}')
    c4 = ch.hf_channel_to_choi_op(lambda x: apply_ref(K, x), din)
    ctx.close(np.asarray(c4).reshape(din * dout, din * dout), choi_ref, tol, 'hf_channel_to_choi_op')
    # callables that hand back their argument or a view of it (identity channel; a channel applied through views) are channels like any other
    ident = np.einsum('ia,jb->iajb', np.eye(din), np.eye(din)).reshape(din * din, din * din)
    ctx.close(np.asarray(ch.hf_channel_to_choi_op(lambda x: x, din)).reshape(din * din, din * din), ident, tol, 'hf_channel_to_choi_op of the identity channel given as `lambda rho: rho`')
    Kid = ch.hf_channel_to_kraus_op(lambda x: x, din)
    ctx.close(apply_ref(Kid, rho), rho, 1e-7, 'hf_channel_to_kraus_op of the identity channel given as `lambda rho: rho`')
    if din == dout and K.shape[0] == 1:
        V = K[0]
        cV = ch.hf_channel_to_choi_op(lambda x: (V @ x.T.conj().T) @ V.conj().T, din)
        ctx.close(np.asarray(cV).reshape(din * dout, din * dout), choi_ref, tol, 'hf_channel_to_choi_op (callable working on views of its argument)')
    # Bloch map of a state preparation (dim_in = 1): no matrix part, the vector is the Bloch vector of the prepared state
    if din == 1 and dout >= 2:
        A1, b1 = ch.choi_op_to_bloch_map(np.asarray(choi_ref_c).reshape(din, dout, din, dout))
        Bout1 = ref.gellmann_basis(dout)
        ctx.require(b1.shape == (dout * dout - 1,), 'Bloch map shapes (dim_in = 1)')
        ctx.close(b1, (np.einsum('aij,ji->a', Bout1, out) / 2).real[:-1], tol, 'Bloch map of a state preparation = Bloch vector of the prepared state')
        ctx.label('bloch dim_in=1')
    # Bloch map
    if din >= 2 and dout >= 2:
        A, b = ch.choi_op_to_bloch_map(choi_ref.reshape(din, dout, din, dout))
        Bin, Bout = ref.gellmann_basis(din), ref.gellmann_basis(dout)
        bv_in = (np.einsum('aij,ji->a', Bin, rho) / 2).real[:-1]
        bv_out = (np.einsum('aij,ji->a', Bout, out) / 2).real[:-1]
        ctx.require(A.shape == (dout * dout - 1, din * din - 1) and b.shape == (dout * dout - 1,), 'Bloch map shapes')
        ctx.close(A @ bv_in + b, bv_out, tol, 'Bloch map reproduces the output Bloch vector')
        ctx.label('bloch')
        if float(np.abs(np.asarray(choi_ref).imag).max()) == 0.0:
            # a real channel (real Kraus operators) held in a real dtype: its Choi blocks are real but NOT symmetric
            A2, b2 = ch.choi_op_to_bloch_map(np.ascontiguousarray(np.asarray(choi_ref).real).reshape(din, dout, din, dout))
            ctx.close(A2, A, tol, 'Bloch map of a real-dtype Choi operator = Bloch map of its complex copy (matrix)')
            ctx.close(b2, b, tol, 'Bloch map of a real-dtype Choi operator = Bloch map of its complex copy (vector)')
            ctx.label('bloch real dtype')
    ctx.close(K, K_before, 0, 'channel routines do not modify the Kraus operators they are given')
    ctx.close(rho, rho_before, 0, 'channel routines do not modify the input state')
    ctx.close(choi_ref, choi_ref_c, 0, 'channel routines do not modify the Choi operator they are given')
    ctx.close(super_ref, super_ref_c, 0, 'channel routines do not modify the super-operator they are given')
    # torch backend where offered
    Kt, rt = torch.tensor(K), torch.tensor(rho)
    ctx.close(ch.kraus_op_to_choi_op(Kt), choi_ref, tol, 'torch kraus_op_to_choi_op')
    ctx.close(ch.apply_choi_op(torch.tensor(choi_ref), rt), out, tol, 'torch apply_choi_op')
    ctx.close(ch.apply_kraus_op(Kt, rt), out, tol, 'torch apply_kraus_op')
    ctx.close(ch.apply_super_op(torch.tensor(super_ref), rt), out, tol, 'torch apply_super_op')


# --------------------------------------------------------------------------------------------- built-in noise
@st.composite
def _strat_noise(draw, tier='quick'):
    return dict(name=draw(st.sampled_from(['dephasing', 'depolarizing', 'amplitude_damping'])),
                rate=draw(st.one_of(st.sampled_from([0.0, 1.0, 0.5, 1e-12, 1 - 1e-12]), st.floats(0, 1))), prng=draw(st.integers(0, 2 ** 31)))


def run_noise(ctx, case):
    nq = _nq()
    name, p = case['name'], case['rate']
    ctx.note(klass=name, desc=[name, 'end' if p in (0.0, 1.0) else ('mid' if 0.01 < p < 0.99 else 'near-end')], nontrivial=(p not in (0.5,)),
             labels=[name, 'endpoint' if p in (0.0, 1.0) else 'interior'])
    ctx.fresh(lambda: getattr(nq.channel, f'hf_{name}_kraus_op')(p), 'built-in channel: a second call is not affected by editing the Kraus operators returned by the first')
    K = np.asarray(getattr(nq.channel, f'hf_{name}_kraus_op')(p)).astype(np.complex128)
    ctx.finite(K, 'Kraus operators finite')
    ctx.close(sum(k.conj().T @ k for k in K), np.eye(2), 1e-12, 'built-in channel trace preserving')
    choi = nq.channel.kraus_op_to_choi_op(K)
    ctx.require(ref.min_eig(choi) > -1e-12, 'built-in channel completely positive')
    rho = ref.rand_dm(ref.rng(case['prng']), 2)
    out = apply_ref(K, rho)
    if name == 'dephasing':
        want = rho.copy()
        want[0, 1] *= (1 - 2 * p)
        want[1, 0] *= (1 - 2 * p)
    elif name == 'depolarizing':
        want = (1 - p) * rho + p * np.eye(2) / 2
    else:
        want = np.array([[rho[0, 0] + p * rho[1, 1], math.sqrt(1 - p) * rho[0, 1]], [math.sqrt(1 - p) * rho[1, 0], (1 - p) * rho[1, 1]]])
    ctx.close(out, want, 1e-12, f'{name} action')


# --------------------------------------------------------------------------------------------- contractivity
def fidelity_ref(a, b):
    def sq(m):
        w, v = np.linalg.eigh((m + m.conj().T) / 2)
        return (v * np.sqrt(np.maximum(w, 0))) @ v.conj().T
    s = np.linalg.svd(sq(a) @ sq(b), compute_uv=False)
    return float(s.sum() ** 2)


def xlogx(w):
    w = np.maximum(w, 0)
    return float(sum(x * math.log(x) for x in w if x > 0))


def relent_ref(a, b):
    wa = np.linalg.eigvalsh(a)
    wb, vb = np.linalg.eigh(b)
    lb = (vb * np.log(np.maximum(wb, 1e-300))) @ vb.conj().T
    return xlogx(wa) - float(np.trace(a @ lb).real)


@st.composite
def _strat_contr(draw, tier='quick'):
    c = draw(_strat_chan(tier))
    c['state2'] = draw(st.sampled_from(['full', 'low', 'pure']))
    c['close'] = draw(st.sampled_from([0, 0, 1e-3, 1e-8]))
    return c


def run_contr(ctx, case):
    import torch
    nq = _nq()
    u = nq.utils
    din, dout, kind = case['din'], case['dout'], case['kind']
    r = ref.rng(case['prng'])
    K = _channel(case, r)
    ctx.note(klass=kind, desc=[din, dout, K.shape[0], case['field'], kind, case['state'], case['state2']],
             nontrivial=(din != dout or case['state'] != 'full' or case['state2'] != 'full'), labels=[kind, case['state'], case['state2']])
    if np.abs(sum(k.conj().T @ k for k in K) - np.eye(din)).max() > 1e-12:
        ctx.inconclusive_case('numqi.random draw not trace preserving to 1e-12')  # nearly singular draw of the generator (C10's business): not a usable channel for 1e-9 inequalities
        return
    rho = make_state(r, din, case['state'])
    sig = make_state(r, din, case['state2'])
    if case['close']:
        sig = (1 - case['close']) * rho + case['close'] * sig
        ctx.label('nearby pair')
    o_rho, o_sig = apply_ref(K, rho), apply_ref(K, sig)
    o_rho, o_sig = (o_rho + o_rho.conj().T) / 2, (o_sig + o_sig.conj().T) / 2
    # trace distance
    T0, T1 = u.get_trace_distance(rho, sig), u.get_trace_distance(o_rho, o_sig)
    ctx.close(T0, np.abs(np.linalg.eigvalsh(rho - sig)).sum() / 2, 1e-10, 'trace distance = half the trace norm')
    ctx.require(T1 <= T0 + 1e-9, 'trace distance does not increase under a channel', f'{T0} -> {T1}')
    ctx.require(-1e-12 <= T0 <= 1 + 1e-9, 'trace distance in [0,1]')
    # fidelity
    F0, F1 = u.get_fidelity(rho, sig), u.get_fidelity(o_rho, o_sig)
    ctx.close(F0, fidelity_ref(rho, sig), 5e-6, 'fidelity = (Tr sqrt(sqrt(rho) sigma sqrt(rho)))^2')
    ctx.close(F1, fidelity_ref(o_rho, o_sig), 5e-6, 'fidelity (outputs)')
    ctx.require(F1 >= F0 - 1e-6, 'fidelity does not decrease under a channel', f'{F0} -> {F1}')
    ctx.close(u.get_fidelity(sig, rho), F0, 5e-6, 'fidelity symmetric')
    ctx.require(-1e-7 <= F0 <= 1 + 1e-7 and -1e-7 <= F1 <= 1 + 1e-7, 'fidelity in [0,1]', f'{F0}, {F1}')
    ctx.close(float(u.get_fidelity(torch.tensor(rho), torch.tensor(sig))), F0, 5e-6, 'torch fidelity = numpy fidelity')
    # vector forms of pure states (both ndim branches)
    for which, (a, b) in enumerate([(rho, sig), (sig, rho)]):
        st_kind = case['state'] if which == 0 else case['state2']
        if (st_kind == 'pure' or din == 1) and not (which == 1 and case['close']):
            w, v = np.linalg.eigh(a)
            psi = v[:, -1] * np.exp(1j * 0.3)
            Fm = fidelity_ref(a, b)
            ctx.close(u.get_fidelity(psi, b), Fm, 5e-6, 'fidelity(vector, matrix)')
            ctx.close(u.get_fidelity(b, psi), Fm, 5e-6, 'fidelity(matrix, vector)')
            ctx.close(float(u.get_fidelity(torch.tensor(psi), torch.tensor(b))), Fm, 5e-6, 'torch fidelity(vector, matrix)')
            ctx.close(float(u.get_fidelity(torch.tensor(b), torch.tensor(psi))), Fm, 5e-6, 'torch fidelity(matrix, vector)')
            w2, v2 = np.linalg.eigh(b)
            phi = v2[:, -1]
            ctx.close(u.get_fidelity(psi, phi), abs(np.vdot(psi, phi)) ** 2, 1e-10, 'fidelity(vector, vector)')
            ctx.close(float(u.get_fidelity(torch.tensor(psi), torch.tensor(phi))), abs(np.vdot(psi, phi)) ** 2, 1e-10, 'torch fidelity(vector, vector)')
            ctx.label('vector branch')
    # entropies
    for m, d in [(rho, din), (o_rho, dout), (sig, din)]:
        S = float(u.get_von_neumann_entropy(m))
        ctx.close(S, -xlogx(np.linalg.eigvalsh(m)), 1e-9, 'von Neumann entropy = -sum p log p')
        ctx.require(-1e-9 <= S <= math.log(d) + 1e-9, 'entropy in [0, log d]', f'{S} d={d}')
        ctx.close(float(u.get_von_neumann_entropy(torch.tensor(m))), S, 1e-9, 'torch entropy = numpy entropy')
    Sb = u.get_von_neumann_entropy(np.stack([rho, sig]))
    ctx.close(Sb, [-xlogx(np.linalg.eigvalsh(rho)), -xlogx(np.linalg.eigvalsh(sig))], 1e-9, 'batched entropy')
    # relative entropy for EVERY pair: non-negative (Klein), and when rho has weight w outside the support of sigma (true value +infinity) the
    # reported regularised value is large: at least 10 w - log d (any regularisation floor below e^-10 gives this)
    for a_, b_, d_ in ((rho, sig, din), (o_rho, o_sig, dout), (sig, rho, din)):
        Rab = float(u.get_relative_entropy(a_, b_))
        ctx.require(math.isfinite(Rab) and Rab >= -1e-9, 'relative entropy is finite and non-negative for every pair of states', f'{Rab}')
        wb, vb = np.linalg.eigh(b_)
        ker = vb[:, wb < 1e-12]
        if ker.shape[1] > 0:
            w_out = float(np.real(np.trace(ker.conj().T @ a_ @ ker)))
            if w_out > 1e-3:
                ctx.require(Rab >= 10 * w_out - math.log(d_) - 1e-9, 'relative entropy is large when rho has weight outside the support of sigma', f'S={Rab} weight outside={w_out}')
                ctx.label('rho not supported on sigma')
    # exact value (full-rank, well conditioned sigma only)
    ws = np.linalg.eigvalsh(sig)
    if ws.min() > 1e-6 * ws.max() and ws.min() > 1e-9:
        R0 = float(u.get_relative_entropy(rho, sig))
        ctx.close(R0, relent_ref(rho, sig), 1e-8, 'relative entropy = Tr rho (log rho - log sigma)', max(1.0, abs(R0)))
        R1 = float(u.get_relative_entropy(o_rho, o_sig))
        wo = np.linalg.eigvalsh(o_sig)
        if wo.min() > 1e-9:
            ctx.close(R1, relent_ref(o_rho, o_sig), 1e-8, 'relative entropy (outputs)', max(1.0, abs(R1)))
        ctx.require(R1 <= R0 + 1e-7 * max(1.0, abs(R0)), 'relative entropy does not increase under a channel', f'{R0} -> {R1}')
        ctx.require(R0 >= -1e-9, 'relative entropy non-negative', f'{R0}')
        ctx.close(float(u.get_relative_entropy(torch.tensor(rho), torch.tensor(sig), _torch_logm='eigen')), R0, 1e-9, 'torch relative entropy',
                  max(1.0, abs(R0)))
        ctx.close(float(u.get_relative_entropy(rho, sig, tr_rho_log_rho=xlogx(np.linalg.eigvalsh(rho)))), R0, 1e-9, 'relative entropy with supplied Tr rho log rho',
                  max(1.0, abs(R0)))
        ctx.label('relative entropy')


SUBCHECKS = [
    SubCheck('representations', run_repr, strategy=_strat_chan, examples=(1200, 6000), shards=(3, 16), floors={'din!=dout': 0.3, 'bloch': 0.3}),
    SubCheck('builtin_noise', run_noise, strategy=_strat_noise, examples=(600, 3000), floors={'endpoint': 0.05}),
    SubCheck('contractive', run_contr, strategy=_strat_contr, examples=(1200, 6000), shards=(3, 16), floors={'relative entropy': 0.15, 'vector branch': 0.2, 'rho not supported on sigma': 0.1}),
]
