"""C11 - measurement is a valid projective measurement on any qubit subset."""
import os
import itertools
import numpy as np
from hypothesis import strategies as st

from ..core import SubCheck
from .. import ref
from . import c03

PROPERTY = 'C11'
RULE = ('exhaustive: n=1..6 and all 2^n-1 non-empty ascending subsets x state kinds {Haar, product, GHZ, W, basis state, uniform superposition over a '
        'random subset of basis states (zero-probability outcomes), real amplitudes} x several seeds (reach of outcomes recorded); hypothesis: circuits '
        'prefix -> measure(subset, seed) -> suffix -> second measure (overlapping subsets), executed twice. Oracle: Born marginals by explicit summation, '
        'projection with an explicit bit mask, reference state tracked through the dense reference unitary of the prefix/suffix. Non-trivial = the '
        'complement of the subset splits into >=2 groups or the state has a zero-probability outcome. Distinct = (n, subset, state kind).'
        ' States also as strided / read-only arrays, real float64 and integer basis states, index also as (negative-stride) integer array.'
        " The same input again after set_args on the circuit's gates; the returned bit list is edited before the repeated call.")
RULE += ' Measurements are also added through extend_circuit (a measuring sub-circuit joined to a larger one): the handle held by the caller must carry the recorded outcome and probabilities.'
ASSUMPTIONS = ['no frequency test: the property claims support and Born probabilities, not a sampling distribution',
               'input states are normalised (np.random.Generator.choice requires probabilities summing to one)',
               'float32/complex64 states are outside the domain for the same reason: a state normalised to single precision has probabilities summing to one '
               'only to ~1e-7 and Generator.choice (tolerance ~1.5e-8) rejects them with a ValueError - a clean rejection, not a wrong answer; real float64 '
               'and integer basis states are inside']

KINDS = ['haar', 'product', 'ghz', 'w', 'basis', 'sparse', 'real', 'real_f64', 'basis_int', 'near_certain']  # single precision: see ASSUMPTIONS


def _nq():
    import numqi
    return numqi


def make_state(r, n, kind):
    N = 2 ** n
    if kind == 'haar':
        return ref.rand_state(r, N)
    if kind == 'product':
        return ref.kron(*[ref.rand_state(r, 2).reshape(2, 1) for _ in range(n)]).reshape(-1)
    if kind == 'ghz':
        v = np.zeros(N, dtype=np.complex128)
        v[0] = v[-1] = 1 / np.sqrt(2)
        return v
    if kind == 'w':
        v = np.zeros(N, dtype=np.complex128)
        for q in range(n):
            v[1 << q] = 1
        return v / np.linalg.norm(v)
    if kind == 'basis':
        v = np.zeros(N, dtype=np.complex128)
        v[int(r.integers(0, N))] = np.exp(1j * r.uniform(0, 6))
        return v
    if kind == 'sparse':
        m = int(r.integers(1, max(2, N // 2) + 1))
        idx = r.choice(N, size=min(m, N), replace=False)
        v = np.zeros(N, dtype=np.complex128)
        v[idx] = ref.rand_complex(r, len(idx))
        return v / np.linalg.norm(v)
    if kind == 'near_certain':
        # one outcome is almost but not exactly certain: sqrt(1-eps)|b> + i sqrt(eps)|b'> with eps in {1e-11, 1e-9, 1e-6}; the small branch is a real outcome
        eps = [1e-11, 1e-9, 1e-6][int(r.integers(0, 3))]
        b0 = int(r.integers(0, N))
        b1 = (N - 1 - b0) if N > 1 else b0  # all bits flipped: differs on every measured subset
        v = np.zeros(N, dtype=np.complex128)
        v[b0] = np.sqrt(1 - eps)
        if b1 != b0:
            v[b1] = 1j * np.sqrt(eps)
        return v / np.linalg.norm(v)
    if kind == 'real_f64':  # a real state held in a real dtype
        v = r.normal(size=N)
        return v / np.linalg.norm(v)
    if kind == 'real_f32':
        v = r.normal(size=N)
        return (v / np.linalg.norm(v)).astype(np.float32)
    if kind == 'basis_int':  # a computational basis state written down with integers
        v = np.zeros(N, dtype=np.int64)
        v[int(r.integers(0, N))] = 1
        return v
    if kind == 'c64':
        return ref.rand_state(r, N).astype(np.complex64)
    v = r.normal(size=N).astype(np.complex128)
    return v / np.linalg.norm(v)


def n_groups_complement(n, keep):
    comp = [q for q in range(n) if q not in keep]
    g = 0
    prev = None
    for q in comp:
        if prev is None or q != prev + 1:
            g += 1
        prev = q
    return g


def _tolf(psi):
    """tolerance factor: single-precision states carry 6e-8 relative rounding per amplitude"""
    return 3e5 if np.asarray(psi).dtype in (np.float32, np.complex64) else 1.0


def check_measure(ctx, psi, n, keep, seed, form=0):
    """one call of measure_quantum_vector judged against the explicit projective measurement"""
    nq = _nq()
    keep = tuple(keep)
    arg = keep if form == 0 else (list(keep) if form == 1 else (keep[0] if len(keep) == 1 else keep))
    if form == 1 and (n + len(keep)) % 2 == 0:
        arg = np.array(keep[::-1])[::-1]  # an index array that is a negative-stride view (logical content = keep)
        ctx.label('index as reversed-view array')
    layout = ['C', 'strided', 'readonly'][((seed if isinstance(seed, int) else 0) + len(keep) + form + n) % 3]  # a slice of a larger array / a read-only array holds the same state
    ctx.label('state layout=' + layout)
    psi_in = ref.with_layout(psi, layout)
    f = _tolf(psi)
    bits, prob, q1 = nq.sim.state.measure_quantum_vector(psi_in, arg, seed=seed)
    ctx.close(psi_in, psi, 0, 'input state not modified')
    want_p = ref.born_marginal(psi, n, keep)
    ctx.require(np.shape(prob) == (2 ** len(keep),), 'probability vector length', f'{np.shape(prob)}')
    ctx.close(prob, want_p, 1e-12 * f, 'probabilities = Born marginals')
    ctx.require(np.all(np.asarray(prob) >= -1e-15), 'probabilities non-negative')
    ctx.close(np.sum(prob), 1.0, 1e-12 * f, 'probabilities sum to one')
    ctx.require(len(bits) == len(keep) and all(b in (0, 1) for b in bits), 'bit string has one bit per measured qubit', f'{bits}')
    o = 0
    for b in bits:
        o = (o << 1) | int(b)
    ctx.require(want_p[o] > 1e-14, 'reported outcome has non-zero probability', f'bits={bits} p={want_p[o]}')
    proj = ref.project_outcome(psi, n, keep, bits)
    want = proj / np.sqrt(want_p[o])
    ctx.close(q1, want, 1e-10 * f, 'post-measurement state = normalised projection onto the outcome')
    ctx.close(np.linalg.norm(q1), 1.0, 1e-10 * f, 'post-measurement state normalised')
    return bits, o, q1


def cases_subsets(tier):
    try:
        s = int(os.environ.get('VERIF_SEED', '1') or 1)
    except ValueError:
        s = 1
    out = []
    for n in range(1, 7 if tier == 'quick' else 8):
        for m in range(1, n + 1):
            for keep in itertools.combinations(range(n), m):
                if tier != 'quick' and n == 7 and len(out) % 3:
                    pass
                out.append(dict(n=n, keep=list(keep), prng=s * 15485863 + len(out)))
    return out


def run_subsets(ctx, case):
    nq = _nq()
    n, keep = case['n'], case['keep']
    g = n_groups_complement(n, keep)
    ctx.note(klass=f'groups>={min(g, 3)}', desc=[n, keep], nontrivial=(g >= 2), labels=[f'n={n}', f'groups={g}'])
    nseeds = 3 if ctx.tier == 'quick' else 8
    for ki, kind in enumerate(KINDS):
        r = ref.rng(case['prng'] * 11 + ki)
        psi = make_state(r, n, kind)
        want_p = ref.born_marginal(psi, n, keep)
        zero = bool(np.any(want_p < 1e-14))
        seen = set()
        kept = []  # results handed out earlier must stay intact when further measurements are made (no shared buffers)
        for sd in range(nseeds):
            seed = int(r.integers(0, 2 ** 31))
            bits, o, q1 = check_measure(ctx, psi, n, keep, seed, form=(sd + ki) % 3)
            seen.add(o)
            kept.append((q1, q1.copy()))
            # same seed -> same outcome, also after the caller has edited the bit list it got back (it is the caller's list)
            bits_keep = list(bits)
            if isinstance(bits, list):
                bits.reverse()
                bits.append(7)
            bits2, _, _ = nq.sim.state.measure_quantum_vector(psi.copy(), tuple(keep), seed=seed)
            ctx.require(list(bits2) == bits_keep, 'same seed gives the same outcome (also after the first returned bit list was edited in place)', f'{bits_keep} vs {list(bits2)}')
            bits = bits_keep
            # repeatability: measuring again gives the same bits with certainty and leaves the state unchanged
            bits3, prob3, q3 = nq.sim.state.measure_quantum_vector(q1.copy(), tuple(keep), seed=seed + 1)
            ctx.require(list(bits3) == list(bits), 're-measurement returns the same outcome', f'{bits} -> {bits3}')
            ctx.close(prob3[o], 1.0, 1e-12 * _tolf(psi), 're-measurement outcome has probability one')
            ctx.close(q3, q1, 1e-12 * _tolf(psi), 're-measurement leaves the state unchanged')
            ctx.tick()
        for obj, cp in kept:
            ctx.close(obj, cp, 0, 'a post-measurement state returned earlier is not overwritten by later measurements')
        if zero:
            ctx.label('zero-probability outcome present')
        ctx.label(f'reach={len(seen)}/{int((want_p > 1e-14).sum())}' if len(keep) <= 2 else 'reach:n/a')
        # a generator object as seed is accepted as documented
        gen = np.random.default_rng(case['prng'])
        check_measure(ctx, psi, n, keep, gen)


# --------------------------------------------------------------------------------------------- measurement inside a circuit
@st.composite
def _strat_circ(draw, tier='quick'):
    n = draw(st.integers(1, 5))
    pre = [draw(c03.strat_op(n, allow_reuse_of=i)) for i in range(draw(st.integers(0, 5)))]
    mid = [draw(c03.strat_op(n, allow_reuse_of=0)) for i in range(draw(st.integers(0, 4)))]
    post = [draw(c03.strat_op(n, allow_reuse_of=0)) for i in range(draw(st.integers(0, 3)))]
    sub1 = sorted(draw(st.sets(st.integers(0, n - 1), min_size=1, max_size=n)))
    sub2 = sorted(draw(st.sets(st.integers(0, n - 1), min_size=1, max_size=n)))
    return dict(n=n, pre=pre, mid=mid, post=post, m1=sub1, m2=sub2, seed1=draw(st.integers(0, 2 ** 31)), seed2=draw(st.integers(0, 2 ** 31)),
                state=draw(st.sampled_from(KINDS)), prng=draw(st.integers(0, 2 ** 31)), shift=draw(st.sampled_from([0, 0, 1, 2])))


def _segment(ops, n):
    """dense reference unitary (on n wires) of a list of ops, built with the C03 program builder; identity for an empty list"""
    if not ops:
        return None, np.eye(2 ** n, dtype=np.complex128)
    circ, resolved, n_used, sig, Pvals = c03.build(dict(n=n, ops=ops, shift=0, prng=0))
    return (circ, Pvals), c03.ref_unitary(resolved, n)


def run_circuit(ctx, case):
    nq = _nq()
    n = case['n']
    overlap = len(set(case['m1']) & set(case['m2'])) > 0
    g = n_groups_complement(n, case['m1'])
    ctx.note(klass='in-circuit', desc=[n, case['m1'], case['m2'], len(case['pre']) > 0, len(case['mid']) > 0],
             nontrivial=(g >= 2 or overlap), labels=['overlap' if overlap else 'disjoint', f'groups={g}'])
    r = ref.rng(case['prng'])
    # the whole program is assembled in ONE numqi circuit; every segment is mirrored by its dense reference unitary
    RyRxGate, PermGate = c03.make_custom_classes()
    circ = nq.sim.Circuit()
    segs = []
    Pall = {}
    for name in ('pre', 'mid', 'post'):
        built, U = _segment(case[name], n)
        segs.append(U)
        if built is not None:
            c0, Pv = built
            if Pv:
                kw = {k: v for k, v in Pv.items() if k != ''}
                if '' in Pv:
                    c0.setP(Pv[''], **kw)
                else:
                    c0.setP(**kw)
            circ.extend_circuit(c0)
        if name == 'pre':
            if case['prng'] % 3 == 0:
                # the measurement lives in a sub-circuit that is extended into the big one: the handle returned by sub.measure is the record of that measurement
                csub = nq.sim.Circuit()
                g1 = csub.measure(tuple(case['m1']), seed=case['seed1'])
                circ.extend_circuit(csub)
                ctx.label('measure gate through extend_circuit')
            else:
                g1 = circ.measure(tuple(case['m1']), seed=case['seed1'])
        elif name == 'mid':
            g2 = circ.measure(tuple(case['m2']), seed=case['seed2'])
    # make sure the circuit spans n wires
    circ.single_qubit_gate(np.eye(2), n - 1)
    d = case.get('shift', 0)
    case0 = case
    dshift = 0
    Pall_any = any(isinstance(getattr(g_, 'args', None), nq.sim._internal._ParameterHolder) for g_, _ in circ.gate_index_list)
    has_custom_forward = any(getattr(g, 'kind', '') == 'custom' for g, _ in circ.gate_index_list)
    if d and not has_custom_forward and n + d <= 6:
        dshift = d
        circ.shift_qubit_index_(d)
        segs = [np.kron(np.eye(2 ** d), U) for U in segs]
        case = dict(case, m1=[q + d for q in case['m1']], m2=[q + d for q in case['m2']])
        n = n + d
        ctx.label('shifted')
    psi = make_state(r, n, case['state'])
    for rep in range(3):  # the recorded values must refer to the state of *this* run on every apply_state call
        if rep == 1:
            psi = make_state(r, n, 'haar')
        if rep == 2:
            # the SAME input (byte for byte) after the parametrised gates of the circuit were re-parametrised through set_args: everything refers to the new circuit
            import copy
            delta = 0.31
            seen = set()
            for g_, _ in circ.gate_index_list:
                if isinstance(g_, nq.sim.ParameterGate) and id(g_) not in seen and getattr(g_, 'kind', '') != 'custom' and not isinstance(g_.args, nq.sim._internal._ParameterHolder):
                    seen.add(id(g_))
                    g_.set_args(tuple(float(x) + delta for x in g_.args))
            if not seen or Pall_any:
                break  # nothing to re-parametrise, or placeholder gates present (their values live in the sub-circuits' P)

            def bump(ops):
                for o in ops:
                    if o['op'] == 'sub':
                        bump(o['ops'])
                    elif 'args' in o:
                        o['args'] = [x + delta for x in o['args']]
            segs = []
            for name in ('pre', 'mid', 'post'):
                ops2 = copy.deepcopy(case0[name])
                bump(ops2)
                U_ = _segment(ops2, n - dshift)[1]
                segs.append(np.kron(np.eye(2 ** dshift), U_) if dshift else U_)
            ctx.label('same input after set_args')
        out = circ.apply_state(psi.copy())
        f = _tolf(psi)
        s1 = segs[0] @ psi
        p1 = ref.born_marginal(s1, n, case['m1'])
        ctx.close(g1.probability, p1, 1e-10 * f, 'recorded probabilities refer to the state at that point of the circuit (first measurement)')
        ctx.require(g1.bitstr is not None and g1.probability is not None and g2.bitstr is not None and g2.probability is not None,
                    'every measure-gate handle holds the record of its measurement after apply_state')
        ctx.require(len(g1.bitstr) == len(case['m1']) and all(int(b) in (0, 1) for b in g1.bitstr) and len(g2.bitstr) == len(case['m2']) and all(int(b) in (0, 1) for b in g2.bitstr),
                    'recorded bit strings have one bit per measured qubit', f'{g1.bitstr} {g2.bitstr}')
        o1 = int(''.join(str(int(b)) for b in g1.bitstr), 2)
        ctx.require(p1[o1] > 1e-14, 'recorded outcome has non-zero probability')
        s1p = ref.project_outcome(s1, n, case['m1'], g1.bitstr) / np.sqrt(p1[o1])
        s2 = segs[1] @ s1p
        p2 = ref.born_marginal(s2, n, case['m2'])
        ctx.close(g2.probability, p2, 1e-10 * f, 'recorded probabilities refer to the state at that point of the circuit (second measurement)')
        o2 = int(''.join(str(int(b)) for b in g2.bitstr), 2)
        ctx.require(p2[o2] > 1e-14, 'recorded outcome has non-zero probability (second)')
        s2p = ref.project_outcome(s2, n, case['m2'], g2.bitstr) / np.sqrt(p2[o2])
        ctx.close(out, segs[2] @ s2p, 1e-10 * f, 'final state = suffix applied to the projected state')
        if not case['mid'] and set(case['m2']) <= set(case['m1']):
            sub = [g1.bitstr[case['m1'].index(q)] for q in case['m2']]
            ctx.require(list(g2.bitstr) == list(sub), 'measuring a subset again right away repeats the outcome', f'{g1.bitstr} {g2.bitstr}')
            ctx.label('immediate re-measure')


SUBCHECKS = [
    SubCheck('subsets', run_subsets, cases=cases_subsets, shards=(8, 16), doc='all non-empty ascending subsets, n<=6 (7 thorough), 7 state kinds, several seeds'),
    SubCheck('in_circuit', run_circuit, strategy=_strat_circ, examples=(300, 2000), shards=(2, 16), floors={'overlap': 0.3}),
]
