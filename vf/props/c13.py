"""C13 - two-qubit measures agree with each other; convex-roof ansatz bounds from above."""
import math
import numpy as np
from hypothesis import strategies as st

from ..core import SubCheck
from .. import ref

PROPERTY = 'C13'
RULE = ('hypothesis: two-qubit states of rank 1..4 from {random of given rank, separable mixtures, near-separable (1-eps) sigma_sep + eps Bell with eps log-uniform in '
        '[1e-14,1e-2], Werner / isotropic across the threshold, pure product, pure entangled (incl. maximally entangled, locally rotated), X-states}, Haar local unitaries; '
        'models EntanglementFormationModel, ConcurrenceModel, DensityMatrixGMEModel (CPrank 1), DensityMatrixLinearEntropyModel (polar/qr, convex) with num_term from '
        'max(2,rank) to 8, parameters theta ~ N(0,s^2), s in {1e-6,0.1,1,10}, no optimisation, and model instances RE-USED for a second state (history). Oracle: finiteness, '
        'ranges, local-unitary invariance, pure-state formulas, E = h((1+sqrt(1-C^2))/2), G = (1-sqrt(1-C^2))/2 with own h, equivalence with a negative partial-transpose '
        'eigenvalue, negativity = sum |lambda_-|; for models: the ensemble read off the Stiefel point is a decomposition of the CURRENT state, loss = explicit ensemble '
        'average computed in numpy, loss >= closed form. Non-trivial = not Werner/isotropic, or 0<C<1e-6, or s in {1e-6,10}, or re-used model; '
        'distinct = (state kind, rank, eps bucket) / (model, num_term, s, reuse).'
        ' States also in other memory layouts; models built for fewer eigenvectors than the state has must refuse or stay above the closed form; the same ndarray object is re-used (overwritten in place) for the second state.'
        ' Weakly entangled pure states (Schmidt probability 1e-14..1e-2); real-dtype states; model inputs in every memory layout, unchanged after set_density_matrix.')
ASSUMPTIONS = ['concurrence comparisons at 1e-7 (square roots of eigenvalues); loss >= closed form - 1e-8',
               'linear entropy: two-qubit convex roof of 1-Tr rho_A^2 equals C^2/2',
               'the ensemble is reconstructed from the model attributes manifold / manifold_stiefel and _sqrt_rho; if they disappear only the inequality is judged']

BELL = np.array([1, 0, 0, 1]) / math.sqrt(2)
STATE_KINDS = ['random', 'separable', 'near_separable', 'werner', 'isotropic', 'pure_product', 'pure_entangled', 'max_entangled', 'xstate', 'weak_pure']


def _nq():
    import numqi
    return numqi


def h2(x):
    return 0.0 if x <= 0 or x >= 1 else -x * math.log(x) - (1 - x) * math.log(1 - x)


@st.composite
def _state_case(draw):
    return dict(kind=draw(st.sampled_from(STATE_KINDS)), rank=draw(st.integers(1, 4)), eps_exp=draw(st.floats(-14, -2)), u=draw(st.floats(0, 1)),
                prng=draw(st.integers(0, 2 ** 31)))


def build(c):
    nq = _nq()
    r = ref.rng(c['prng'])
    k = c['kind']
    if k == 'random':
        return ref.rand_dm(r, 4, c['rank'])
    if k == 'separable':
        return ref.separable_state(r, [2, 2], c['rank'], 'haar', 'dirichlet')[0]
    if k == 'near_separable':
        sig = ref.separable_state(r, [2, 2], max(1, c['rank']), 'haar', 'dirichlet')[0]
        eps = 10 ** c['eps_exp']
        U = np.kron(ref.rand_unitary(r, 2), ref.rand_unitary(r, 2))
        b = U @ BELL
        return (1 - eps) * sig + eps * np.outer(b, b.conj())
    if k == 'werner':
        a = min(1.0, max(-1.0, 0.5 + (c['u'] - 0.5) * (2e-6 if c['rank'] % 2 else 1.0)))
        return nq.state.Werner(2, a)
    if k == 'isotropic':
        a = min(1.0, max(-1 / 3, 1 / 3 + (c['u'] - 0.5) * (2e-6 if c['rank'] % 2 else 1.0)))
        return nq.state.Isotropic(2, a)
    if k == 'pure_product':
        v = np.kron(ref.rand_state(r, 2), ref.rand_state(r, 2))
        return np.outer(v, v.conj())
    if k == 'pure_entangled':
        v = ref.rand_state(r, 4)
        return np.outer(v, v.conj())
    if k == 'weak_pure':
        # weakly entangled pure state: Schmidt probabilities (1-lam, lam) with lam = 10^eps_exp in [1e-14, 1e-2], locally rotated
        lam = 10 ** c['eps_exp']
        v = np.kron(ref.rand_unitary(r, 2), ref.rand_unitary(r, 2)) @ np.array([math.sqrt(1 - lam), 0, 0, math.sqrt(lam)])
        return np.outer(v, v.conj())
    if k == 'max_entangled':
        v = np.kron(ref.rand_unitary(r, 2), ref.rand_unitary(r, 2)) @ BELL
        return np.outer(v, v.conj())
    # X-state
    a, b, cc, d = r.dirichlet(np.ones(4))
    w = math.sqrt(a * d) * c['u'] * np.exp(1j * r.uniform(0, 6))
    z = math.sqrt(b * cc) * (1 - c['u']) * np.exp(1j * r.uniform(0, 6))
    rho = np.diag([a, b, cc, d]).astype(np.complex128)
    rho[0, 3], rho[3, 0] = w, np.conj(w)
    rho[1, 2], rho[2, 1] = z, np.conj(z)
    return rho


def closed_forms(ctx, rho, tag=''):
    nq = _nq()
    E = nq.entangle
    C = float(E.get_concurrence_2qubit(rho))
    F = float(E.get_eof_2qubit(rho))
    G = float(E.get_gme_2qubit(rho))
    ctx.require(math.isfinite(C) and math.isfinite(F) and math.isfinite(G), 'closed-form two-qubit measures are finite', f'{tag} C={C} E={F} G={G}')
    ctx.require(-1e-12 <= C <= 1 + 1e-9, 'concurrence in [0,1]', f'{C}')
    ctx.require(-1e-12 <= F <= math.log(2) + 1e-9, 'entanglement of formation in [0, log 2]', f'{F}')
    ctx.require(-1e-12 <= G <= 0.5 + 1e-9, 'geometric measure in [0, 1/2]', f'{G}')
    s = math.sqrt(max(0.0, 1 - C * C))
    ctx.close(F, h2((1 + s) / 2), 1e-9, 'E = h((1+sqrt(1-C^2))/2)')
    ctx.close(G, (1 - s) / 2, 1e-9, 'G = (1-sqrt(1-C^2))/2')
    return C, F, G


def run_closed(ctx, case):
    nq = _nq()
    E = nq.entangle
    c = case
    rho = build(c)
    rho = (rho + rho.conj().T) / 2
    layout = ref.LAYOUTS[(c['prng'] // 7) % len(ref.LAYOUTS)]
    if c['prng'] % 3 == 1 and float(np.abs(rho.imag).max()) == 0.0:
        rho = np.ascontiguousarray(rho.real)  # a real state held in a real dtype
    rho = ref.with_layout(rho, layout)  # same values; the measures are functions of the matrix, not of its strides
    rank = int((np.linalg.eigvalsh(rho) > 1e-12).sum())
    try:  # only for the class labels; a failure is judged after ctx.note (the same call is repeated below)
        Cq = float(E.get_concurrence_2qubit(rho.copy()))
    except Exception:
        Cq = float('nan')
    tiny = 0 < Cq < 1e-6
    ctx.note(klass=c['kind'], desc=[c['kind'], rank, int(c['eps_exp']) if c['kind'] == 'near_separable' else 0, 'tiny' if tiny else ('zero' if Cq == 0 else 'pos')],
             nontrivial=(c['kind'] not in ('werner', 'isotropic') or tiny), labels=[c['kind'], f'rank={rank}', 'tiny concurrence' if tiny else ('C=0' if Cq == 0 else 'C>0'), 'layout=' + layout])
    rho_before = rho.copy()
    C, F, G = closed_forms(ctx, rho, c['kind'])
    ctx.close(rho, rho_before, 0, 'closed-form measures do not modify the state')
    # local unitary invariance
    r = ref.rng(c['prng'] + 1)
    U = np.kron(ref.rand_unitary(r, 2), ref.rand_unitary(r, 2))
    rho2 = U @ rho @ U.conj().T
    rho2 = (rho2 + rho2.conj().T) / 2
    C2, F2, G2 = closed_forms(ctx, rho2, 'rotated')
    ctx.close(C2, C, 1e-7, 'concurrence invariant under local unitaries')
    ctx.close(F2, F, 1e-6 if C < 1e-3 else 1e-7, 'entanglement of formation invariant under local unitaries')
    sC = math.sqrt(max(0.0, 1 - C * C))
    # G = (1-sqrt(1-C^2))/2 has derivative C/(2 sqrt(1-C^2)): a 1e-7 uncertainty of C is amplified near C=1 (at most sqrt(2e-7)/2 ~ 2.3e-4)
    ctx.close(G2, G, max(1e-7, min(2e-3, 1e-7 * C / (2 * sC + 1e-12))), 'geometric measure invariant under local unitaries')
    if c['kind'] == 'max_entangled':
        # concurrence of a maximally entangled state rounds to 1 +- 1ulp depending on the local rotation: sweep rotations
        for _ in range(40):
            V = np.kron(ref.rand_unitary(r, 2), ref.rand_unitary(r, 2)) @ BELL
            closed_forms(ctx, np.outer(V, V.conj()), 'rotated Bell state')
            ctx.tick()
    # partial transpose
    ev = np.linalg.eigvalsh(ref.partial_transpose(rho, [2, 2], [1]))
    if C > 1e-6:
        ctx.require(ev.min() < 0, 'C > 0 implies a negative partial-transpose eigenvalue', f'C={C} min={ev.min()}')
    if ev.min() < -1e-6:
        ctx.require(C > 0, 'a negative partial-transpose eigenvalue implies C > 0', f'C={C} min={ev.min()}')
    neg = float(E.get_negativity(rho, (2, 2)))
    ctx.close(neg, float(np.abs(ev[ev < 0]).sum()), 1e-9, 'negativity = sum of |negative partial-transpose eigenvalues|')
    # pure states
    if rank == 1:
        w, v = np.linalg.eigh(rho)
        psi = v[:, -1].reshape(2, 2)
        sv = np.linalg.svd(psi, compute_uv=False)
        Cp = float(E.get_concurrence_pure(psi))
        Ep = float(E.get_eof_pure(psi))
        ctx.require(math.isfinite(Cp) and math.isfinite(Ep), 'pure-state formulas finite', f'{Cp} {Ep}')
        ctx.close(Cp, 2 * sv[0] * sv[1], 1e-7, 'get_concurrence_pure = 2 sqrt(det rho_A)')
        ctx.close(Ep, h2(sv[0] ** 2), 5e-9, 'get_eof_pure = entropy of the Schmidt spectrum')  # the documented cut-off eps = 1e-10 drops at most -lam log lam = 2.3e-9
        ctx.close(C, Cp, 1e-7, 'mixed-state concurrence reduces to the pure-state formula')
        ctx.close(F, Ep, 1e-6 if C < 1e-3 else 1e-7, 'mixed-state EOF reduces to the pure-state formula')
        ctx.close(G, 1 - sv[0] ** 2, max(1e-7, min(2e-3, 1e-7 * C / (2 * sC + 1e-12))), 'GME of a pure state = 1 - max Schmidt coefficient squared')
        ctx.label('pure')


# --------------------------------------------------------------------------------------------- models
MODELS = ['eof', 'concurrence', 'gme', 'linent_polar', 'linent_qr']


@st.composite
def _strat_model(draw, tier='quick'):
    s1 = draw(_state_case())
    s2 = draw(_state_case())
    return dict(model=draw(st.sampled_from(MODELS)), s1=s1, s2=s2, extra=draw(st.integers(0, 4)), scale=draw(st.sampled_from([1e-6, 0.1, 1.0, 10.0])),
                reuse=draw(st.booleans()), prng=draw(st.integers(0, 2 ** 31)))


def _ensemble_average(model_name, psis):
    tot = 0.0
    for v in psis:
        p = float(np.vdot(v, v).real)
        if p < 1e-300:
            continue
        m = (v / math.sqrt(p)).reshape(2, 2)
        sv = np.linalg.svd(m, compute_uv=False)
        if model_name == 'eof':
            tot += p * h2(min(1.0, sv[0] ** 2))
        elif model_name == 'concurrence':
            tot += p * 2 * sv[0] * sv[1]
        else:
            tot += p * (1 - sv[0] ** 4 - sv[1] ** 4)
    return tot


def run_model(ctx, case):
    import torch
    nq = _nq()
    E = nq.entangle
    name = case['model']
    rhos = [build(case['s1'])] + ([build(case['s2'])] if case['reuse'] else [])
    rhos = [(x + x.conj().T) / 2 for x in rhos]
    ranks = [int((np.linalg.eigvalsh(x) > 1e-10).sum()) for x in rhos]
    rank = max(ranks)
    # a model built for FEWER eigenvectors than the state has: it must refuse the state or still describe the state that was given
    under_rank = (case['prng'] % 5 == 0 and rank >= 2)
    if under_rank:
        rank = rank - 1
    # one ndarray re-used by the caller for successive states (overwritten in place between the calls)
    same_buffer = bool(case['reuse'] and case['prng'] % 2 == 0)
    nterm = min(8, max(2, rank) + case['extra'])
    ctx.note(klass=name, desc=[name, nterm, case['scale'], case['reuse'], case['s1']['kind']], nontrivial=(case['scale'] in (1e-6, 10.0) or case['reuse']),
             labels=[name, f'scale={case["scale"]}', 'reused model' if case['reuse'] else 'fresh model'])
    if name == 'eof':
        model = E.EntanglementFormationModel(2, 2, nterm, rank=rank)
    elif name == 'concurrence':
        model = E.ConcurrenceModel(2, 2, nterm, rank=rank)
    elif name == 'gme':
        model = E.DensityMatrixGMEModel((2, 2), nterm, rank=rank)
    else:
        model = E.DensityMatrixLinearEntropyModel((2, 2), nterm, rank=rank, kind='convex', method=('polar' if name == 'linent_polar' else 'qr'))
    r = ref.rng(case['prng'])
    buf = np.zeros((4, 4), dtype=np.complex128)
    for it, rho in enumerate(rhos):
        if same_buffer:
            buf[...] = rho
            arg = buf
            ctx.label('same array object re-used for the next state')
        else:
            lay_m = ref.LAYOUTS[(case['prng'] // 7 + it) % len(ref.LAYOUTS)]
            arg = ref.with_layout(rho, lay_m)  # e.g. rho.T of a conjugated matrix, the output of an einsum: column-major
            ctx.label('model input layout=' + lay_m)
        arg_keep = np.array(arg, copy=True)
        try:
            model.set_density_matrix(arg)
        except AssertionError:
            if under_rank and ranks[it] > rank:
                ctx.label('state of higher rank than the model refused')
                continue
            raise
        if under_rank and ranks[it] > rank:
            ctx.label('state of higher rank than the model accepted')
        ctx.close(arg, arg_keep, 0, f'{name} model: set_density_matrix does not modify the matrix it is given')
        with torch.no_grad():
            for p in model.parameters():
                p.copy_(torch.tensor(r.normal(size=tuple(p.shape)) * case['scale'], dtype=p.dtype))
        loss = float(model())
        ctx.require(math.isfinite(loss), f'{name} model: loss finite', f'{loss}')
        C = float(E.get_concurrence_2qubit(rho))
        closed = {'eof': float(E.get_eof_2qubit(rho)), 'concurrence': C, 'gme': float(E.get_gme_2qubit(rho))}.get(name, C * C / 2)
        ctx.require(loss >= closed - (1e-7 if name == 'concurrence' else 1e-8), f'{name} model: loss is never below the closed-form value', f'loss={loss} closed={closed} state#{it} scale={case["scale"]}')
        st_case = case['s1'] if it == 0 else case['s2']
        if name == 'eof' and st_case['kind'] == 'weak_pure' and not under_rank:
            lam = 10 ** st_case['eps_exp']  # the exact Schmidt probability of this state: every decomposition of a pure state consists of copies of it
            if lam >= 1e-13:
                ctx.require(loss >= h2(lam) * (1 - 1e-3), 'eof model on a weakly entangled pure state: loss = h(lambda) to relative accuracy (no absolute cut-off)', f'loss={loss} h(lambda)={h2(lam)} lambda={lam}')
                ctx.label('weak pure state in the eof model')
        # the Stiefel point defines an actual decomposition of the CURRENT state
        man = getattr(model, 'manifold', None) or getattr(model, 'manifold_stiefel', None)
        sq = getattr(model, '_sqrt_rho', None)
        if man is None or sq is None:
            ctx.label('ensemble not reconstructable')
            continue
        X = man().detach().numpy()
        S = sq.detach().numpy().reshape(4, -1)
        ctx.close(X.conj().T @ X, np.eye(X.shape[1]), 1e-7, f'{name} model: mixing matrix is a Stiefel point')
        psis = [S @ X[i] for i in range(X.shape[0])]
        ctx.close(sum(np.outer(v, v.conj()) for v in psis), rho, 1e-7, f'{name} model: the ensemble is a decomposition of the state that was set')
        if name == 'gme':
            prods = [np.kron(a, b) for a, b in zip(model.manifold_psi[0]().detach().numpy(), model.manifold_psi[1]().detach().numpy())]
            direct = 1 - sum(abs(np.sum(pr * v)) ** 2 for pr, v in zip(prods, psis))  # the model contracts without conjugating the product vectors
            ctx.close(loss, direct, 1e-8, 'gme model: loss = 1 - sum |<product_i|psi_i>|^2')
            best = sum(float(np.vdot(v, v).real) - np.linalg.svd(v.reshape(2, 2), compute_uv=False)[0] ** 2 for v in psis)
            ctx.require(loss >= best - 1e-8, 'gme model: loss >= ensemble average of the pure-state GME')
        else:
            direct = _ensemble_average('eof' if name == 'eof' else ('concurrence' if name == 'concurrence' else 'linent'), psis)
            ctx.close(loss, direct, 1e-7 if name == 'concurrence' else 1e-8, f'{name} model: loss = ensemble average over the decomposition')


SUBCHECKS = [
    SubCheck('closed_forms', run_closed, strategy=lambda tier: _state_case(), examples=(2500, 15000), shards=(3, 16), floors={'tiny concurrence': 0.02, 'pure': 0.15}),
    SubCheck('models', run_model, strategy=_strat_model, examples=(500, 4000), shards=(3, 16), floors={'reused model': 0.3}),
]
