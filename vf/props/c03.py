"""C03 - the state-vector simulator applies gates exactly as the embedded operator."""
import os
import itertools
import numpy as np
from hypothesis import strategies as st

from ..core import SubCheck
from .. import ref

PROPERTY = 'C03'
RULE = ('exhaustive index space: n=1..6, every ordered target tuple of size 1..3 and every control subset of the remaining qubits (2277 patterns) with '
        'payload kinds {complex non-unitary, Haar unitary, diagonal, permutation} x {random state, basis state}; density-matrix routines on the same '
        'index space for n<=4; all keep-sets for marginals; hypothesis: circuit programs over the whole Circuit vocabulary (fixed, controlled, '
        'parametrised, controlled-parametrised with 1-2 controls, k-qubit matrices, controlled matrices, re-used gate objects, extend_circuit, registered '
        'custom gates of kind unitary and custom, placeholder parameters, index shifting). Oracle: dense embedding by bit arithmetic (vf/ref.py), ordered '
        'matrix product. Non-trivial = targets not an ascending adjacent run, or controls present, or a program with a controlled-parametrised / re-used / '
        'custom gate / shift. Distinct = (api, n, targets, controls, container type) resp. program shape signature.'
        ' Arrays are also handed over as Fortran-ordered / strided / read-only copies, states and density matrices also in real and integer dtypes, index tuples also as negative-stride integer arrays; programs also contain a two-qubit user gate on descending wires; parametrised gates are re-parametrised (set_args, a second setP) and compared with a fresh program.'
        ' Marginals also of unnormalised vectors; a user gate that is not the identity at parameter 0.')
ASSUMPTIONS = ['kraus gates are excluded: Circuit.apply_state asserts they are unsupported for state vectors',
               'reference gate matrices (rx, ry, rz, u3, rzz, H, S, T, Swap) are built from the documented generators in vf/ref.py',
               'tolerance 1e-10 * |op| * |state| for float64 algebra']


def _nq():
    import numqi
    return numqi


def _seed():
    try:
        return int(os.environ.get('VERIF_SEED', '1') or 1)
    except ValueError:
        return 1


def _op(r, k, kind):
    d = 2 ** k
    if kind == 0:
        return ref.rand_complex(r, d, d)
    if kind == 1:
        return ref.rand_unitary(r, d)
    if kind == 2:
        return np.diag(np.exp(1j * r.uniform(0, 2 * np.pi, size=d)))
    if kind == 4:  # a gate within 1e-6 of the identity (a tiny rotation angle, a weak non-unitary damping): still a different operator
        if r.integers(0, 2):
            return np.diag(np.exp(1j * 1e-6 * r.uniform(-1, 1, size=d)))
        return np.eye(d, dtype=np.complex128) + 3e-6 * np.diag(r.uniform(0, 1, size=d))
    p = r.permutation(d)
    m = np.zeros((d, d), dtype=np.complex128)
    m[p, np.arange(d)] = 1
    return m


def _state(r, n, kind):
    if kind == 0:
        return ref.rand_state(r, 2 ** n)
    if kind == 2:  # a real state written down with a real dtype
        v = r.normal(size=2 ** n)
        return v / np.linalg.norm(v)
    v = np.zeros(2 ** n, dtype=[np.complex128, np.float64, np.int64][kind % 3] if kind >= 3 else np.complex128)
    v[int(r.integers(0, 2 ** n))] = 1
    return v


def _contig(t):
    return all(b - a == 1 for a, b in zip(t, t[1:]))


# --------------------------------------------------------------------------------------------- exhaustive index space
def cases_index(tier):
    out = []
    s = _seed()
    cnt = 0
    for n in range(1, 7):
        for k in range(1, min(3, n) + 1):
            for targets in itertools.permutations(range(n), k):
                rest = [q for q in range(n) if q not in targets]
                for m in range(len(rest) + 1):
                    for controls in itertools.combinations(rest, m):
                        cnt += 1
                        out.append(dict(n=n, targets=list(targets), controls=list(controls), prng=s * 1000003 + cnt))
    return out


def run_index(ctx, case):
    nq = _nq()
    n, targets, controls = case['n'], tuple(case['targets']), tuple(case['controls'])
    nt = (not _contig(targets)) or len(controls) > 0
    ctx.note(klass=f'controls={min(len(controls), 1)}', desc=[n, list(targets), list(controls)], nontrivial=nt,
             labels=[f'n={n}', f'k={len(targets)}', f'c={len(controls)}'])
    reps = 3 if ctx.tier == 'quick' else 12
    for rep in range(reps):
        r = ref.rng(case['prng'] * 31 + rep)
        okind, skind = (rep + case['prng']) % 5 if ctx.tier == 'quick' else int(r.integers(0, 5)), int(r.integers(0, 6))  # 0 Haar, 1 basis, 2 real float64, 3-5 basis state with complex/float/int dtype
        ctx.label('state dtype=' + ['complex', 'complex', 'float', 'complex', 'float', 'int'][skind])
        if rep == 0:
            okind = case['prng'] % 4
        op = _op(r, len(targets), okind)
        psi = _state(r, n, skind)
        M = ref.embed(op, n, targets, controls)
        want = M @ psi
        scale = max(1.0, np.abs(op).max() * 2 ** len(targets))
        form = (case['prng'] + rep) % 4
        # same values in other memory layouts (a slice of a larger register, a transposed gate matrix, read-only arrays)
        lay_s, lay_o = ['C', 'strided', 'readonly'][(case['prng'] // 4 + rep) % 3], ref.LAYOUTS[(case['prng'] // 12 + rep) % len(ref.LAYOUTS)]
        ctx.label('state layout=' + lay_s, 'op layout=' + lay_o)
        op = ref.with_layout(op, lay_o)
        op_before = op.copy()
        if len(controls) == 0:
            if form == 0:
                idx = targets
            elif form == 1:
                idx = list(targets)
            elif form == 2:
                idx = targets[0] if len(targets) == 1 else tuple(int(x) for x in targets)
            else:
                idx = np.array(targets) if rep % 2 == 0 else np.array(targets[::-1])[::-1]  # an index array, also as a negative-stride view with the same logical content
            psi_in = ref.with_layout(psi, lay_s)
            got = nq.sim.state.apply_gate(psi_in, op, idx)
            ctx.close(got, want, 1e-10, 'apply_gate = embedded operator', scale)
            ctx.close(psi_in, psi, 0, 'input state not modified')
            ctx.close(op, op_before, 0, 'gate matrix not modified')
        if len(controls) > 0 or rep == 0:
            if len(controls) == 0:
                continue
            cform = [set(controls), tuple(controls), list(controls)[::-1], (controls[0] if len(controls) == 1 else set(controls))][form]
            tform = targets if form % 2 == 0 else (targets[0] if len(targets) == 1 else list(targets))
            psi_in = ref.with_layout(psi, lay_s)
            got = nq.sim.state.apply_control_n_gate(psi_in, op, cform, tform)
            ctx.close(got, want, 1e-10, 'apply_control_n_gate = operator on the all-ones control subspace', scale)
            ctx.close(psi_in, psi, 0, 'input state not modified')
            ctx.close(op, op_before, 0, 'gate matrix not modified')
        ctx.tick()


def cases_dm(tier):
    out = []
    s = _seed()
    cnt = 0
    for n in range(1, 5 if tier == 'quick' else 6):
        for k in range(1, min(3, n) + 1):
            for targets in itertools.permutations(range(n), k):
                cnt += 1
                out.append(dict(n=n, targets=list(targets), prng=s * 7919 + cnt))
    return out


def run_dm(ctx, case):
    nq = _nq()
    n, targets = case['n'], tuple(case['targets'])
    ctx.note(klass='dm', desc=[n, list(targets)], nontrivial=not _contig(targets), labels=[f'n={n}', f'k={len(targets)}'])
    for rep in range(3):
        r = ref.rng(case['prng'] * 17 + rep)
        op = _op(r, len(targets), (case['prng'] + rep) % 5)
        rho = ref.rand_dm(r, 2 ** n, int(r.integers(1, 2 ** n + 1))) if rep != 1 else ref.rand_hermitian(r, 2 ** n)
        dk = (case['prng'] // 5 + rep) % 5  # 0,1: complex128 as drawn; 2: real symmetric float64; 3: real diagonal float64; 4: integer basis projector
        if dk == 2:
            rho = np.ascontiguousarray(rho.real)
        elif dk == 3:
            rho = np.diag(r.dirichlet(np.ones(2 ** n)))
        elif dk == 4:
            rho = np.zeros((2 ** n, 2 ** n), dtype=np.int64)
            j = int(r.integers(0, 2 ** n))
            rho[j, j] = 1
        ctx.label('dm dtype=' + ['complex', 'complex', 'float', 'float diag', 'int'][dk])
        M = ref.embed(op, n, targets)
        scale = max(1.0, np.abs(op).max() * 2 ** len(targets)) ** 2
        form = (case['prng'] + rep) % 3
        if form == 0:
            idx = list(targets)
        elif form == 1:
            idx = targets
        else:
            idx = targets[0] if len(targets) == 1 else targets
        lay_r, lay_o = ref.LAYOUTS[(case['prng'] // 3 + rep) % len(ref.LAYOUTS)], ref.LAYOUTS[(case['prng'] // 12 + rep) % len(ref.LAYOUTS)]
        ctx.label('dm layout=' + lay_r, 'op layout=' + lay_o)
        rho_in, op_in = ref.with_layout(rho, lay_r), ref.with_layout(op, lay_o)
        got = nq.sim.dm.apply_gate(rho_in, op_in, idx)
        ctx.close(got, M @ rho @ M.conj().T, 1e-10, 'dm.apply_gate = U rho U^dagger', scale)
        if (case['prng'] + rep) % 5 == 4:
            ctx.label('near-identity gate')
        e = nq.sim.dm.operator_expectation(rho_in, op_in, idx)
        ctx.close(e, np.trace(rho @ M), 1e-10, 'operator_expectation = Tr(rho O)', scale)
        ctx.close(rho_in, rho, 0, 'density matrix not modified')
        ctx.close(op_in, op, 0, 'gate matrix not modified')
        ctx.tick()


def cases_marg(tier):
    out = []
    s = _seed()
    for n in range(1, 7):
        for m in range(0, n + 1):
            for keep in itertools.combinations(range(n), m):
                out.append(dict(n=n, keep=list(keep), prng=s * 104729 + len(out)))
    return out


def run_marg(ctx, case):
    nq = _nq()
    n, keep = case['n'], case['keep']
    ctx.note(klass='marginal', desc=[n, keep], nontrivial=not _contig(keep), labels=[f'n={n}'])
    r = ref.rng(case['prng'])
    for kind in (0, 1, 2, 3):
        psi = _state(r, n, kind % 2)
        if kind >= 2:
            psi = psi * (0.5 if kind == 2 else 3.0)  # an unnormalised vector (e.g. after a non-unitary operator): the marginals are the squared moduli, summing to |psi|^2
        psi_before = psi.copy()
        got = nq.sim.state.reduce_to_probability(psi, set(keep))
        want = ref.born_marginal(psi, n, keep)
        ctx.require(got.shape == (2 ** len(keep),), 'marginal shape')
        ctx.close(got, want, 1e-12, 'reduce_to_probability = Born marginal (sum of squared moduli over the other qubits)', max(1.0, float(np.vdot(psi, psi).real)))
        ctx.close(psi, psi_before, 0, 'reduce_to_probability does not modify the state')
        ctx.tick()


@st.composite
def _strat_ip(draw, tier='quick'):
    n = draw(st.integers(1, 5))
    nterm = draw(st.integers(1, 3))
    terms = []
    for _ in range(nterm):
        L = draw(st.integers(1, 3))
        fac = []
        for _ in range(L):
            k = draw(st.integers(1, min(2, n)))
            idx = draw(st.permutations(range(n)))[:k]
            fac.append(list(idx))
        terms.append(fac)
    return dict(n=n, terms=terms, prng=draw(st.integers(0, 2 ** 31)))


def run_ip(ctx, case):
    nq = _nq()
    n, terms = case['n'], case['terms']
    overlap = any(len(set(a) & set(b)) > 0 for t in terms for a, b in itertools.combinations(t, 2))
    ctx.note(klass='inner_product', desc=[n, [[len(f) for f in t] for t in terms], overlap], nontrivial=overlap, labels=['overlap' if overlap else 'disjoint'])
    r = ref.rng(case['prng'])
    psi0, psi1 = ref.rand_state(r, 2 ** n), ref.rand_state(r, 2 ** n)
    op_list, want = [], []
    for t in terms:
        M = np.eye(2 ** n, dtype=np.complex128)
        term = []
        for idx in t:
            g = ref.rand_complex(r, 2 ** len(idx), 2 ** len(idx))
            term.append((g,) + tuple(idx))
            M = M @ ref.embed(g, n, idx)
        op_list.append(term)
        want.append(np.vdot(psi0, M @ psi1))
    got = nq.sim.state.inner_product_psi0_O_psi1(psi0, psi1, op_list)
    ctx.close(got, np.array(want), 1e-9, '<psi0|O|psi1> with O the left-to-right product of each term', 8.0 ** max(len(t) for t in terms))


# --------------------------------------------------------------------------------------------- programs
FIXED1 = {'X': ref.SX, 'Y': ref.SY, 'Z': ref.SZ, 'H': ref.HAD, 'S': ref.SGATE, 'T': ref.TGATE}
CTRL1 = {'cnot': ref.SX, 'cx': ref.SX, 'cy': ref.SY, 'cz': ref.SZ}
PARAM1 = {'rx': (ref.rx, 1), 'ry': (ref.ry, 1), 'rz': (ref.rz, 1), 'u3': (ref.u3, 3)}
CPARAM = {'crx': (ref.rx, 1), 'cry': (ref.ry, 1), 'crz': (ref.rz, 1), 'cu3': (ref.u3, 3)}


@st.composite
def strat_op(draw, n, allow_reuse_of=0, differentiable_only=False, depth=0):
    kinds = ['fixed1', 'ctrl1', 'param1', 'rzz', 'cparam', 'matrix', 'cmatrix', 'custom_u', 'placeholder']
    if n >= 2:
        kinds += ['swap']
    if n >= 3:
        kinds += ['toffoli']
    if not differentiable_only:
        kinds += ['custom_c']
    if allow_reuse_of > 0:
        kinds += ['reuse', 'reuse']
    if depth == 0 and not differentiable_only:
        kinds += ['sub']
    kind = draw(st.sampled_from(kinds))
    perm = draw(st.permutations(range(n)))
    ang = st.floats(0, 2 * np.pi, allow_nan=False, exclude_max=True)
    if kind == 'fixed1':
        return dict(op=draw(st.sampled_from(sorted(FIXED1))), q=[perm[0]])
    if kind == 'swap':
        return dict(op='Swap', q=list(perm[:2]))
    if kind == 'ctrl1':
        if n < 2:
            return dict(op='H', q=[perm[0]])
        return dict(op=draw(st.sampled_from(sorted(CTRL1))), c=[perm[0]], t=[perm[1]])
    if kind == 'toffoli':
        return dict(op='toffoli', c=sorted(perm[:2]), t=[perm[2]])
    if kind == 'param1':
        name = draw(st.sampled_from(sorted(PARAM1)))
        return dict(op=name, q=[perm[0]], args=[draw(ang) for _ in range(PARAM1[name][1])])
    if kind == 'rzz':
        if n < 2:
            return dict(op='rz', q=[perm[0]], args=[draw(ang)])
        return dict(op='rzz', q=list(perm[:2]), args=[draw(ang)])
    if kind == 'cparam':
        if n < 2:
            return dict(op='ry', q=[perm[0]], args=[draw(ang)])
        name = draw(st.sampled_from(sorted(CPARAM)))
        nc = draw(st.integers(1, min(2, n - 1)))
        return dict(op=name, c=sorted(perm[:nc]), t=[perm[nc]], args=[draw(ang) for _ in range(CPARAM[name][1])])
    if kind == 'matrix':
        k = draw(st.integers(1, min(4 if not differentiable_only else 2, n)))
        return dict(op='matrix', q=list(perm[:k]), prng=draw(st.integers(0, 2 ** 31)))
    if kind == 'cmatrix':
        if n < 2:
            return dict(op='matrix', q=[perm[0]], prng=draw(st.integers(0, 2 ** 31)))
        k = draw(st.integers(1, min(2, n - 1)))
        nc = draw(st.integers(1, n - k))
        return dict(op='cmatrix', c=sorted(perm[:nc]), t=list(perm[nc:nc + k]), prng=draw(st.integers(0, 2 ** 31)))
    if kind == 'custom_u':
        if draw(st.integers(0, 2)) == 0:
            return dict(op='custom_p', q=[perm[0]], args=[draw(st.one_of(st.just(0.0), ang))])
        if n >= 2 and draw(st.booleans()):
            return dict(op='custom_u2', q=list(perm[:2]), args=[draw(ang)])
        return dict(op='custom_u', q=[perm[0]], args=[draw(ang), draw(ang)])
    if kind == 'custom_c':
        k = draw(st.integers(1, min(2, n)))
        return dict(op='custom_c', q=list(perm[:k]), prng=draw(st.integers(0, 2 ** 31)))
    if kind == 'placeholder':
        if draw(st.integers(0, 3)) == 0:
            return dict(op='placeholder3', q=[perm[0]], key=draw(st.sampled_from(['w0', 'w1'])), args=[draw(ang), draw(ang), draw(ang)])
        name = draw(st.sampled_from(['rx', 'ry', 'rz']))
        return dict(op='placeholder', name=name, q=[perm[0]], key=draw(st.sampled_from(['', 'a', 'b'])), slot=draw(st.integers(0, 2)), args=[draw(ang)])
    if kind == 'reuse':
        return dict(op='reuse', src=draw(st.integers(0, allow_reuse_of - 1)), perm=list(perm))
    # sub-circuit appended through extend_circuit
    L = draw(st.integers(1, 3))
    return dict(op='sub', ops=[draw(strat_op(n, 0, differentiable_only, depth=1)) for _ in range(L)])


@st.composite
def strat_program(draw, tier='quick', max_n=5, max_len=12, differentiable_only=False):
    n = draw(st.integers(1, max_n))
    L = draw(st.integers(1, max_len))
    ops = []
    for i in range(L):
        ops.append(draw(strat_op(n, allow_reuse_of=i, differentiable_only=differentiable_only)))
    return dict(n=n, ops=ops, shift=draw(st.sampled_from([0, 0, 1, 2])), prng=draw(st.integers(0, 2 ** 31)))


def _rand_unitary_from_seed(seed, k):
    return ref.rand_unitary(ref.rng(seed), 2 ** k)


def _hf_ry_rx(alpha, beta):
    """user gate of the repo's own test-suite style: ry(beta) rx(alpha) (numpy or torch)"""
    import torch
    if isinstance(alpha, torch.Tensor):
        ca, sa, cb, sb = torch.cos(alpha / 2), torch.sin(alpha / 2), torch.cos(beta / 2), torch.sin(beta / 2)
        cc, cs, sc, ss = ca * cb, ca * sb, sa * cb, sa * sb
        cdt = torch.complex64 if alpha.dtype == torch.float32 else torch.complex128
        ret = torch.stack([cc + 1j * ss, -1j * sc - cs, cs - 1j * sc, cc - 1j * ss], dim=-1).to(cdt).view(*alpha.shape, 2, 2)
        return ret
    alpha, beta = np.asarray(alpha), np.asarray(beta)
    ca, sa, cb, sb = np.cos(alpha / 2), np.sin(alpha / 2), np.cos(beta / 2), np.sin(beta / 2)
    cc, cs, sc, ss = ca * cb, ca * sb, sa * cb, sa * sb
    return np.stack([cc + 1j * ss, -1j * sc - cs, cs - 1j * sc, cc - 1j * ss], axis=-1).reshape(*alpha.shape, 2, 2)


def _hf_rxy(theta):
    """two-qubit user gate exp(-i theta/2 X (x) Y) = cos(theta/2) I - i sin(theta/2) X (x) Y: NOT symmetric under exchange of its two wires (numpy or torch)"""
    import torch
    XY = np.kron(ref.SX, ref.SY)
    if isinstance(theta, torch.Tensor):
        cdt = torch.complex64 if theta.dtype == torch.float32 else torch.complex128
        c, s_ = torch.cos(theta / 2).to(cdt), torch.sin(theta / 2).to(cdt)
        eye, xy = torch.eye(4, dtype=cdt), torch.tensor(XY, dtype=cdt)
        return c[..., None, None] * eye - 1j * s_[..., None, None] * xy
    theta = np.asarray(theta)
    return np.cos(theta / 2)[..., None, None] * np.eye(4) - 1j * np.sin(theta / 2)[..., None, None] * XY


def _hf_phx(phi):
    """one-qubit user gate [[0, e^{-i phi}], [e^{i phi}, 0]]: a parametrised gate that is NOT the identity at phi = 0 (numpy or torch)"""
    import torch
    if isinstance(phi, torch.Tensor):
        cdt = torch.complex64 if phi.dtype == torch.float32 else torch.complex128
        e = torch.exp(1j * phi.to(cdt))
        z = torch.zeros_like(e)
        return torch.stack([z, e.conj(), e, z], dim=-1).view(*phi.shape, 2, 2)
    phi = np.asarray(phi, dtype=np.float64)
    e = np.exp(1j * phi)
    z = np.zeros_like(e)
    return np.stack([z, e.conj(), e, z], axis=-1).reshape(*phi.shape, 2, 2)


def make_custom_classes():
    nq = _nq()

    class PhxGate(nq.sim.ParameterGate):
        def __init__(self, index, phi=0, requires_grad=True):
            super().__init__(kind='unitary', hf0=_hf_phx, args=(phi,), name='phx', requires_grad=requires_grad)
            self.index = (int(index),)
    make_custom_classes.PhxGate = PhxGate

    class RxyGate(nq.sim.ParameterGate):
        def __init__(self, index, theta=0, requires_grad=True):
            super().__init__(kind='unitary', hf0=_hf_rxy, args=(theta,), name='rxy', requires_grad=requires_grad)
            self.index = tuple(int(x) for x in index)
    make_custom_classes.RxyGate = RxyGate

    class RyRxGate(nq.sim.ParameterGate):
        def __init__(self, index, alpha=0, beta=0, requires_grad=True):
            super().__init__(kind='unitary', hf0=_hf_ry_rx, args=(alpha, beta), name='ry_rx', requires_grad=requires_grad)
            self.index = (index,)

    class PermGate:
        """kind='custom': the circuit calls forward(q0) and does not know the wiring"""

        def __init__(self, index, seed):
            self.kind = 'custom'
            self.name = 'perm'
            self.requires_grad = False
            self.index = tuple(index)
            self.mat = _rand_unitary_from_seed(seed, len(self.index))

        def forward(self, q0):
            n = int(np.log2(len(q0)) + 0.5)
            return ref.embed(self.mat, n, self.index) @ q0

    return RyRxGate, PermGate


def build(program, requires_grad=False):
    """returns (circuit, reference list [(matrix, targets, controls)], n_used, signature, P-values)"""
    nq = _nq()
    RyRxGate, PermGate = make_custom_classes()
    circ = nq.sim.Circuit(default_requires_grad=requires_grad)
    circ.register_custom_gate('ry_rx', RyRxGate)
    circ.register_custom_gate('perm', PermGate)
    circ.register_custom_gate('rxy', make_custom_classes.RxyGate)
    circ.register_custom_gate('phx', make_custom_classes.PhxGate)
    reflist = []
    gates = []  # (gate object or None, ref entry) per top-level op for 'reuse'
    sig = set()
    Pvals = {}

    def emit(c, op):
        name = op['op']
        if name in FIXED1:
            g = getattr(c, name)(op['q'][0])
            e = (FIXED1[name], tuple(op['q']), ())
        elif name == 'Swap':
            g = c.Swap(*op['q'])
            e = (ref.SWAP, tuple(op['q']), ())
        elif name in CTRL1:
            g = getattr(c, name)(op['c'][0], op['t'][0])
            e = (CTRL1[name], tuple(op['t']), tuple(op['c']))
            sig.add('ctrl')
        elif name == 'toffoli':
            g = c.toffoli(tuple(op['c']), op['t'][0])
            e = (ref.SX, tuple(op['t']), tuple(op['c']))
            sig.add('multi-ctrl')
        elif name in PARAM1:
            g = getattr(c, name)(op['q'][0], op['args'] if len(op['args']) > 1 else op['args'][0])
            e = (PARAM1[name][0](*op['args']), tuple(op['q']), ())
            sig.add('param')
        elif name == 'rzz':
            g = c.rzz(tuple(op['q']), op['args'][0])
            e = (ref.rzz(op['args'][0]), tuple(op['q']), ())
            sig.add('param')
        elif name in CPARAM:
            g = getattr(c, name)(set(op['c']) if len(op['c']) > 1 else op['c'][0], op['t'][0], op['args'] if len(op['args']) > 1 else op['args'][0])
            e = (CPARAM[name][0](*op['args']), tuple(op['t']), tuple(op['c']))
            sig.add('ctrl-param')
            if len(op['c']) > 1:
                sig.add('multi-ctrl')
        elif name == 'matrix':
            k = len(op['q'])
            U = _rand_unitary_from_seed(op['prng'], k)
            g = [c.single_qubit_gate, c.double_qubit_gate, c.triple_qubit_gate, c.quadruple_qubit_gate][k - 1](U, *op['q'])
            e = (U, tuple(op['q']), ())
            sig.add(f'matrix{k}')
        elif name == 'cmatrix':
            k = len(op['t'])
            U = _rand_unitary_from_seed(op['prng'], k)
            if k == 1:
                g = c.controlled_single_qubit_gate(U, set(op['c']), op['t'][0])
            else:
                g = c.controlled_double_qubit_gate(U, set(op['c']), tuple(op['t']))
            e = (U, tuple(op['t']), tuple(op['c']))
            sig.add('cmatrix')
            if len(op['c']) > 1:
                sig.add('multi-ctrl')
        elif name == 'custom_u':
            g = c.ry_rx(op['q'][0], op['args'][0], op['args'][1], requires_grad=requires_grad)
            e = (ref.ry(op['args'][1]) @ ref.rx(op['args'][0]), tuple(op['q']), ())
            sig.add('custom-unitary')
        elif name == 'custom_u2':
            g = c.rxy(tuple(op['q']), op['args'][0], requires_grad=requires_grad)
            e = (_hf_rxy(op['args'][0]), tuple(op['q']), ())
            sig.add('custom-unitary')
            sig.add('custom two-qubit' + (' descending wires' if op['q'][0] > op['q'][1] else ''))
        elif name == 'custom_p':
            g = c.phx(op['q'][0], op['args'][0], requires_grad=requires_grad)
            e = (_hf_phx(op['args'][0]), tuple(op['q']), ())
            sig.add('custom-unitary')
            if op['args'][0] == 0.0:
                sig.add('custom gate at parameter 0 (not the identity)')
        elif name == 'custom_c':
            g = c.perm(tuple(op['q']), op['prng'])
            e = (_rand_unitary_from_seed(op['prng'], len(op['q'])), tuple(op['q']), ())
            sig.add('custom-forward')
        elif name == 'placeholder':
            key, slot = op['key'], op['slot']
            holder = circ.P[slot] if key == '' else circ.P[key][slot]
            g = getattr(c, op['name'])(op['q'][0], holder)
            Pvals.setdefault(key, [0.123, 0.456, 0.789])
            Pvals[key][slot] = op['args'][0]  # last writer wins: all gates bound to this slot share the value
            e = ('placeholder', op['name'], key, slot, tuple(op['q']))
            sig.add('placeholder')
        elif name == 'placeholder3':
            # a placeholder that stands for a WHOLE parameter array (u3 takes three angles): circ.u3(q, circ.P['w0'])
            key = op['key']
            g = c.u3(op['q'][0], circ.P[key])
            Pvals[key] = list(op['args'])  # last writer wins
            e = ('placeholder', 'u3', key, None, tuple(op['q']))
            sig.add('placeholder')
            sig.add('whole-array placeholder')
        else:
            raise ValueError(name)
        return g, e

    for op in program['ops']:
        if op['op'] == 'reuse':
            g, e = gates[op['src']]
            if g is None or isinstance(e, list) or (isinstance(e[0], str)) or getattr(g, 'kind', '') == 'custom':
                # cannot re-use (sub-circuit / placeholder / custom-forward): fall back to a Hadamard on a permuted wire
                g2, e2 = emit(circ, dict(op='H', q=[op['perm'][0]]))
                gates.append((g2, e2))
                reflist.append(e2)
                continue
            mat, t, cset = e
            perm = op['perm']
            t2 = tuple(perm[x] for x in t)
            c2 = tuple(perm[x] for x in cset)
            if g.kind == 'control':
                circ.append_gate(g, (set(c2), t2))
            else:
                circ.append_gate(g, t2)
            e2 = (mat, t2, c2)
            gates.append((g, e2))
            reflist.append(e2)
            sig.add('reuse')
        elif op['op'] == 'sub':
            c0 = nq.sim.Circuit(default_requires_grad=requires_grad)
            c0.register_custom_gate('ry_rx', RyRxGate)
            c0.register_custom_gate('perm', PermGate)
            c0.register_custom_gate('rxy', make_custom_classes.RxyGate)
            c0.register_custom_gate('phx', make_custom_classes.PhxGate)
            es = []
            for o in op['ops']:
                _, e = emit(c0, o)
                es.append(e)
            circ.extend_circuit(c0)
            gates.append((None, es))
            reflist.extend(es)
            sig.add('extend')
        else:
            g, e = emit(circ, op)
            gates.append((g, e))
            reflist.append(e)
    # resolve placeholders
    resolved = []
    for e in reflist:
        if isinstance(e[0], str):
            _, name, key, slot, q = e
            if slot is None:
                resolved.append((PARAM1[name][0](*Pvals[key]), q, ()))
            else:
                resolved.append((PARAM1[name][0](Pvals[key][slot]), q, ()))
        else:
            resolved.append(e)
    n_used = 1 + max([max(t + c) for (m, t, c), raw in zip(resolved, reflist) if True])
    return circ, resolved, n_used, sig, Pvals


def ref_unitary(resolved, n):
    U = np.eye(2 ** n, dtype=np.complex128)
    for m, t, c in resolved:
        U = ref.embed(m, n, t, c) @ U
    return U


def run_program(ctx, case):
    nq = _nq()
    # custom-forward gates are invisible to num_qubit: the circuit width is what the canonical gates touch
    circ, resolved, n_used, sig, Pvals = build(case)
    ctx.note(klass='program', desc=[case['n'], sorted(sig), case['shift'] > 0, min(len(resolved), 6)],
             nontrivial=bool(sig & {'ctrl-param', 'reuse', 'custom-unitary', 'custom-forward', 'placeholder', 'multi-ctrl', 'extend'}) or case['shift'] > 0,
             labels=sorted(sig) + (['shift'] if case['shift'] else []))
    ph_ids = {id(g) for g, _ in circ.gate_index_list if isinstance(getattr(g, 'args', None), nq.sim._internal._ParameterHolder)}  # placeholder gates, before any setP
    Parr = {k: np.array(v, dtype=np.float64) for k, v in Pvals.items()}  # the caller's parameter arrays: updated IN PLACE before the second setP below
    if Pvals:
        kw = {k: v for k, v in Parr.items() if k != ''}
        if '' in Parr:
            circ.setP(Parr[''], **kw)
        else:
            circ.setP(**kw)
    flat = _flatten(case['ops'])
    n_canon = 1 + max([max(t + c) for (m, t, c), f in zip(resolved, _resolved_kinds(case, resolved)) if f != 'custom_c'] + [0])
    if n_canon < n_used:
        # a custom-forward gate touches a wire no canonical gate uses: the circuit cannot know its width (outside the domain)
        ctx.label('skipped: custom gate wider than circuit')
        return
    n = n_used
    ctx.require(circ.num_qubit == n, 'num_qubit = highest wire + 1', f'{circ.num_qubit} vs {n}')
    U = ref_unitary(resolved, n)
    r = ref.rng(case['prng'])
    psi = ref.rand_state(r, 2 ** n)
    got = circ.apply_state(psi.copy())
    ctx.close(got, U @ psi, 1e-10, 'apply_state = ordered product of embedded operators')
    Uc = circ.to_unitary()
    ctx.close(Uc, U, 1e-10, 'to_unitary = ordered product of embedded operators')
    ctx.close(Uc.conj().T @ Uc, np.eye(2 ** n), 1e-10, 'to_unitary is unitary')
    # a gate handle re-parametrised through set_args must act with the NEW parameters (no stale matrix)
    import copy
    delta = 0.37
    seen = set()
    for g, _ in circ.gate_index_list:
        if isinstance(g, nq.sim.ParameterGate) and id(g) not in seen and id(g) not in ph_ids and getattr(g, 'kind', '') != 'custom' and not isinstance(g.args, nq.sim._internal._ParameterHolder):
            seen.add(id(g))
            g.set_args(tuple(float(x) + delta for x in g.args))
    if seen or Pvals:
        def bump(ops):
            for o in ops:
                if o['op'] == 'sub':
                    bump(o['ops'])
                elif 'args' in o:
                    o['args'] = [x + delta for x in o['args']]
        case2 = copy.deepcopy({k: v for k, v in case.items()})
        bump(case2['ops'])
        circ2, resolved2, n2, sig2, Pvals2 = build(case2)
        U2 = ref_unitary(resolved2, n)
        if Pvals2:
            # placeholders: a SECOND setP with new values must refresh every placeholder gate (the first call was made above)
            for k_ in Parr:
                Parr[k_][...] = np.array(Pvals2[k_], dtype=np.float64)  # same array objects, new values
            kw2 = {k: v for k, v in Parr.items() if k != ''}
            if '' in Parr:
                circ.setP(Parr[''], **kw2)
            else:
                circ.setP(**kw2)
            ctx.label('setP twice')
        ctx.close(circ.to_unitary(), U2, 1e-10, 'after set_args(new) / a second setP(new) every parametrised gate acts with the new parameters')
        ctx.close(circ.apply_state(psi.copy()), U2 @ psi, 1e-10, 'after set_args(new) / a second setP(new): apply_state')
        U = U2
        ctx.label('set_args')
    d = case['shift']
    if d and 'custom-forward' not in sig and n + d <= 7:
        circ.shift_qubit_index_(d)
        ctx.require(circ.num_qubit == n + d, 'num_qubit after shift')
        ctx.close(circ.to_unitary(), np.kron(np.eye(2 ** d), U), 1e-10, 'shifted circuit = I (x) U')
        psi2 = ref.rand_state(r, 2 ** (n + d))
        ctx.close(circ.apply_state(psi2.copy()), np.kron(np.eye(2 ** d), U) @ psi2, 1e-10, 'shifted apply_state')


def _flatten(ops):
    out = []
    for o in ops:
        if o['op'] == 'sub':
            out.extend(o['ops'])
        else:
            out.append(o)
    return out


def _resolved_kinds(case, resolved):
    """kind tag per resolved entry (to find custom-forward gates); re-use of a custom-forward gate is replaced by H in build()"""
    kinds = []
    tops = []
    for o in case['ops']:
        if o['op'] == 'sub':
            ks = [x['op'] for x in o['ops']]
            tops.append('sub')
            kinds.extend(ks)
        elif o['op'] == 'reuse':
            src = tops[o['src']]
            k = 'H' if src in ('sub', 'placeholder', 'placeholder3', 'custom_c') else src
            tops.append(k)
            kinds.append(k)
        else:
            tops.append(o['op'])
            kinds.append(o['op'])
    return kinds


SUBCHECKS = [
    SubCheck('index_space', run_index, cases=cases_index, shards=(8, 16),
             doc='apply_gate / apply_control_n_gate on every ordered target tuple and control subset, n<=6'),
    SubCheck('density_matrix', run_dm, cases=cases_dm, shards=(4, 16), doc='dm.apply_gate / operator_expectation, n<=4 (5 thorough)'),
    SubCheck('marginals', run_marg, cases=cases_marg, shards=(1, 4), doc='reduce_to_probability for every keep-set, n<=6'),
    SubCheck('inner_product', run_ip, strategy=_strat_ip, examples=(300, 2000), floors={'overlap': 0.2}),
    SubCheck('programs', run_program, strategy=strat_program, examples=(400, 3000), shards=(3, 16),
             floors={'reuse': 0.2, 'ctrl-param': 0.2, 'placeholder': 0.15, 'shift': 0.2}),
]
