"""C18 - catalogue constructors return the objects they name."""
import math
import itertools
import numpy as np
from hypothesis import strategies as st

from ..core import SubCheck, HarnessError
from .. import ref

PROPERTY = 'C18'
RULE = ('every public name of numqi.state (discovered with dir(); an uncovered name is a harness error): kets enumerated over their size arguments against explicit amplitudes; '
        'parametrised families with Hypothesis floats over the documented range including both end points (Werner alpha in [-1,1], isotropic alpha in [-1/(d^2-1),1], Horodecki '
        'a,b in [0,1], Antoine q in [-2.5,2.5]); load_upb for every implemented kind and several admissible sizes (sixparam with drawn angles); tetrahedron POVM n=1..4; Chebyshev '
        'bases d=2..8. Oracle: normalisation, Hermitian/PSD/trace one, projector of the ket, symmetry (U x U, U x U*), PPT by own partial transpose, rank, resolution of identity, '
        'closed forms vs generic two-qubit routines, literature formula, continuity and monotonicity. Non-trivial = anything but Werner/isotropic/tiles at the suite parameter '
        'values; distinct = (constructor, size args, parameter bucket).'
        ' Second-call clause (edit the returned array in place, call again) for every constructor, load_upb, the POVM and the Chebyshev bases; W-type states also from integer coefficients.'
        ' Dimensions up to 10 for the Werner / isotropic families.')
RULE += ' Closed-form eof of the Werner / isotropic families is also asked with integer alpha (scalar and array).'
ASSUMPTIONS = ['sixparam UPB: angles are drawn away from multiples of pi/2 (the code itself warns that the construction degenerates there)',
               'closed-form thresholds: "vanish exactly" is checked as == 0 on the separable range, continuity as |f| <= 1e-6 at 1e-9 beyond the threshold',
               'get_Isotropic_eof is compared with the Terhal-Vollbrecht formula re-implemented from the literature']

COVERED = {'W', 'Wtype', 'GHZ', 'Bell', 'get_qubit_dicke_state_GME', 'maximally_entangled_state', 'maximally_mixed_state', 'get_Wtype_state_GME', 'get_bes2x4_Horodecki1997',
           'get_bes3x3_Horodecki1997', 'Dicke', 'maximally_coherent_state', 'Werner', 'get_Werner_ree', 'get_Werner_GME', 'get_Werner_eof', 'Isotropic', 'get_Isotropic_ree',
           'get_Isotropic_GME', 'get_Isotropic_eof', 'get_2qutrit_Antoine2022'}


def _nq():
    import numqi
    return numqi


def _guard():
    nq = _nq()
    public = {n for n in dir(nq.state) if not n.startswith('_') and callable(getattr(nq.state, n))}
    missing = sorted(public - COVERED)
    if missing:
        raise HarnessError(f'numqi.state names without a check: {missing}')


def _is_dm(ctx, rho, what, tol=1e-12):
    rho = np.asarray(rho)
    ctx.require(rho.ndim == 2 and rho.shape[0] == rho.shape[1], f'{what}: square matrix')
    ctx.close(rho, rho.conj().T, tol, f'{what}: Hermitian')
    ctx.close(np.trace(rho), 1, 1e-12, f'{what}: trace one')
    ctx.require(ref.min_eig(rho) > -1e-12, f'{what}: positive semidefinite', f'{ref.min_eig(rho)}')


# --------------------------------------------------------------------------------------------- kets
def cases_kets(tier):
    out = [dict(kind='W', n=n) for n in range(1, 8)] + [dict(kind='GHZ', n=n) for n in range(1, 9)] + [dict(kind='Bell', n=i) for i in range(4)]
    out += [dict(kind='maxent', n=d) for d in range(2, 8)] + [dict(kind='mixed', n=d) for d in range(1, 6)] + [dict(kind='coherent', n=d) for d in range(1, 8)]
    out += [dict(kind='Dicke', klist=list(k)) for n in range(1, 5) for d in (2, 3) for k in ref.compositions(n, d)]
    out += [dict(kind='Wtype', n=n, prng=n * 7 + s) for n in range(2, 6) for s in range(3)]
    out += [dict(kind='dickeGME', n=n, k=k) for n in range(2, 9) for k in range(0, n + 1)]
    out += [dict(kind='WtypeGME', prng=s) for s in range(40)]
    return out


def run_kets(ctx, case):
    _guard()
    nq = _nq()
    S = nq.state
    kind = case['kind']
    ctx.note(klass=kind, desc=[kind, case.get('n'), case.get('klist'), case.get('k')], nontrivial=True, labels=[kind])
    FRESH = 'a second call is not affected by editing the array returned by the first'
    if kind == 'W':
        n = case['n']
        ctx.fresh(lambda: S.W(n), FRESH)
        v = S.W(n)
        want = np.zeros(2 ** n)
        for q in range(n):
            want[1 << q] = 1 / math.sqrt(n)
        ctx.close(v, want, 1e-14, 'W state amplitudes')
    elif kind == 'GHZ':
        n = case['n']
        ctx.fresh(lambda: S.GHZ(n), FRESH)
        v = S.GHZ(n)
        want = np.zeros(2 ** n)
        want[0] += 1 / math.sqrt(2)
        want[-1] += 1 / math.sqrt(2)
        if n >= 1:
            ctx.close(v, want if n >= 1 else want, 1e-14, 'GHZ state amplitudes')
        ctx.close(np.linalg.norm(v), 1 if n >= 1 else 1, 1e-12, 'GHZ normalised') if n > 0 else None
    elif kind == 'Bell':
        i = case['n']
        ctx.fresh(lambda: S.Bell(i), FRESH)
        v = S.Bell(i)
        want = [np.array([1, 0, 0, 1]), np.array([1, 0, 0, -1]), np.array([0, 1, 1, 0]), np.array([0, 1, -1, 0])][i] / math.sqrt(2)
        ctx.close(v, want, 1e-14, 'Bell state amplitudes')
        allb = np.stack([S.Bell(j) for j in range(4)])
        ctx.close(allb @ allb.T, np.eye(4), 1e-14, 'Bell states orthonormal')
    elif kind == 'maxent':
        d = case['n']
        ctx.fresh(lambda: S.maximally_entangled_state(d), FRESH)
        v = S.maximally_entangled_state(d)
        ctx.close(v, np.eye(d).reshape(-1) / math.sqrt(d), 1e-14, 'maximally entangled state amplitudes')
    elif kind == 'mixed':
        d = case['n']
        ctx.fresh(lambda: S.maximally_mixed_state(d), FRESH)
        rho = S.maximally_mixed_state(d)
        ctx.require(rho.shape == (d * d, d * d), 'maximally mixed state: documented shape (d^2, d^2)')
        ctx.close(rho, np.eye(d * d) / (d * d), 1e-15, 'maximally mixed state = I/D')
    elif kind == 'coherent':
        d = case['n']
        ctx.fresh(lambda: [S.maximally_coherent_state(d), S.maximally_coherent_state(d, return_dm=True)], FRESH)
        v = S.maximally_coherent_state(d)
        ctx.close(v, np.ones(d) / math.sqrt(d), 1e-14, 'maximally coherent state amplitudes')
        rho = S.maximally_coherent_state(d, return_dm=True)
        ctx.close(rho, np.outer(v, v.conj()), 1e-14, 'return_dm = projector of the ket')
    elif kind == 'Dicke':
        k = case['klist']
        ctx.fresh(lambda: S.Dicke(*k), FRESH)
        v = S.Dicke(*k)
        ctx.close(v, ref.dicke_vector(k, len(k)), 1e-14, 'Dicke state amplitudes')
    elif kind == 'Wtype':
        r = ref.rng(case['prng'])
        n = case['n']
        c = ref.rand_complex(r, n) if case['prng'] % 2 else r.normal(size=n)
        if case['prng'] % 3 == 2:
            c = r.integers(1, 5, size=n) * r.choice([-1, 1], size=n)  # integer coefficients, e.g. Wtype([1, 2, 2])
            ctx.label('integer coefficients')
        v = S.Wtype(c.copy())
        want = np.zeros(2 ** n, dtype=np.complex128)
        for q in range(n):
            want[1 << q] = c[q] / np.linalg.norm(c)
        ctx.close(v, want, 1e-14, 'W-type state amplitudes')
    elif kind == 'dickeGME':
        n, k = case['n'], case['k']
        val = S.get_qubit_dicke_state_GME(n, k)
        th = np.linspace(0, math.pi / 2, 20001)
        ov = math.comb(n, k) * np.cos(th) ** (2 * (n - k)) * np.sin(th) ** (2 * k)
        ctx.close(val, 1 - ov.max(), 1e-7, 'qubit Dicke GME = 1 - max overlap with a symmetric product state')
    else:
        r = ref.rng(case['prng'])
        abc = np.abs(r.normal(size=3))
        if case['prng'] % 5 == 0:
            abc = np.array([1.0, 1.0, 1.0])
        if case['prng'] % 7 == 3:
            abc[0] = 0.05
        a, b, c = abc / np.linalg.norm(abc)
        val = S.get_Wtype_state_GME(a, b, c)
        ctx.finite(np.array(val), 'W-type GME finite')
        ctx.require(-1e-12 <= val <= 5 / 9 + 1e-9, 'W-type GME in [0, 5/9]', f'{val}')
        for p in itertools.permutations([a, b, c]):
            ctx.close(S.get_Wtype_state_GME(*p), val, 1e-9, 'W-type GME symmetric in its arguments')
        # brute force: maximise |<abc|psi>|^2 over real product states (amplitudes are non-negative, so real product states suffice)
        psi = S.Wtype(np.array([a, b, c])).reshape(2, 2, 2)
        t = np.linspace(0, math.pi / 2, 61)
        vec = np.stack([np.cos(t), np.sin(t)], axis=1)
        ov = np.einsum('ijk,ai,bj,ck->abc', psi, vec, vec, vec) ** 2
        best = ov.max()
        ctx.require(val <= 1 - best + 1e-9, 'W-type GME is at most 1 - overlap with any product state', f'{val} vs {1 - best}')
        ctx.require(val >= 1 - best - 2e-3, 'W-type GME equals 1 - max overlap (grid search)', f'{val} vs {1 - best}')


# --------------------------------------------------------------------------------------------- families
def swap_op(d):
    P = np.zeros((d * d, d * d))
    for i in range(d):
        for j in range(d):
            P[i * d + j, j * d + i] = 1
    return P


def binent(x):
    return 0.0 if x <= 0 or x >= 1 else -x * math.log(x) - (1 - x) * math.log(1 - x)


def iso_eof_ref(d, alpha):
    F = (1 + alpha * d * d - alpha) / (d * d)
    if F <= 1 / d:
        return 0.0
    if F <= 4 * (d - 1) / (d * d) or d == 2:
        g = (math.sqrt(F) + math.sqrt((d - 1) * (1 - F))) ** 2 / d
        return binent(g) + (1 - g) * math.log(d - 1) if d > 2 else binent(g)
    return d * math.log(d - 1) * (F - 1) / (d - 2) + math.log(d)


@st.composite
def _strat_fam(draw, tier='quick'):
    fam = draw(st.sampled_from(['werner', 'werner', 'isotropic', 'isotropic', 'horodecki2x4', 'horodecki3x3', 'antoine']))
    d = draw(st.one_of(st.integers(2, 5), st.integers(2, 10)))  # moderate dimensions: the end-point formulas round differently for every d
    u = draw(st.one_of(st.sampled_from([0.0, 1.0, 0.5]), st.floats(0, 1), st.sampled_from(['thr', 'thr+', 'thr-', 'thr2', 'thr2+'])))
    return dict(fam=fam, d=d, u=u, prng=draw(st.integers(0, 2 ** 31)))


def run_fam(ctx, case):
    _guard()
    nq = _nq()
    S = nq.state
    fam, d, u = case['fam'], case['d'], case['u']
    FRESH = 'a second call is not affected by editing the array returned by the first'
    r = ref.rng(case['prng'])
    if fam in ('werner', 'isotropic'):
        lo, hi = (-1.0, 1.0) if fam == 'werner' else (-1 / (d * d - 1), 1.0)
        thr = 1 / d if fam == 'werner' else 1 / (d + 1)
        Fthr = 4 * (d - 1) / (d * d)
        thr2 = min(1.0, (Fthr * d * d - 1) / (d * d - 1))  # alpha at the second branch point of the isotropic EOF
        if isinstance(u, str):
            alpha = {'thr': thr, 'thr+': thr + 1e-9, 'thr-': thr - 1e-9, 'thr2': thr2, 'thr2+': min(1.0, thr2 + 1e-9)}[u]
        else:
            alpha = lo + (hi - lo) * u
        alpha = min(max(alpha, lo), hi)
        bucket = 'endpoint' if alpha in (lo, hi) else ('threshold' if isinstance(u, str) else ('sep' if alpha <= thr else 'ent'))
        ctx.note(klass=fam, desc=[fam, d, bucket], nontrivial=(d > 3 or bucket in ('endpoint', 'threshold')), labels=[fam, bucket, f'd={d}'])
        ctx.fresh(lambda: (S.Werner if fam == 'werner' else S.Isotropic)(d, alpha), FRESH)
        rho = (S.Werner if fam == 'werner' else S.Isotropic)(d, alpha)
        ctx.require(rho.shape == (d * d, d * d), f'{fam}: shape')
        _is_dm(ctx, rho, fam)
        U = ref.rand_unitary(r, d)
        if fam == 'werner':
            want = (np.eye(d * d) - alpha * swap_op(d)) / (d * d - d * alpha)
            UU = np.kron(U, U)
        else:
            phi = np.eye(d).reshape(-1) / math.sqrt(d)
            want = (1 - alpha) / (d * d) * np.eye(d * d) + alpha * np.outer(phi, phi)
            UU = np.kron(U, U.conj())
        ctx.close(rho, want, 1e-13, f'{fam}: documented formula')
        ctx.close(UU @ rho @ UU.conj().T, rho, 1e-12, f'{fam}: symmetry of the family')
        ppt = ref.min_eig(ref.partial_transpose(rho, [d, d], [1])) > -1e-12
        ctx.require(ppt == (alpha <= thr + 1e-12), f'{fam}: PPT exactly on the separable range', f'alpha={alpha} thr={thr} ppt={ppt}')
        pre = 'get_Werner_' if fam == 'werner' else 'get_Isotropic_'
        vals = {}
        for q in ('ree', 'eof', 'GME'):
            v = float(np.asarray(getattr(S, pre + q)(d, alpha)))
            vals[q] = v
            ctx.require(math.isfinite(v), f'{fam} {q}: finite', f'alpha={alpha} -> {v}')
            ctx.require(v >= -1e-12, f'{fam} {q}: non-negative', f'{v}')
            if alpha <= thr:
                ctx.require(v == 0, f'{fam} {q}: vanishes exactly on the separable range', f'alpha={alpha} -> {v}')
            elif alpha <= thr + 2e-9:
                ctx.require(abs(v) <= 1e-6, f'{fam} {q}: continuous at the threshold', f'alpha={alpha} -> {v}')
            elif alpha >= thr + 1e-3:
                ctx.require(v > 0, f'{fam} {q}: positive beyond the threshold', f'alpha={alpha} -> {v}')
            # monotone non-decreasing in alpha beyond the threshold
            if alpha < hi - 1e-3:
                v2 = float(np.asarray(getattr(S, pre + q)(d, min(hi, alpha + 1e-3))))
                ctx.require(v2 >= v - 1e-9, f'{fam} {q}: monotone in alpha', f'{alpha}: {v} -> {v2}')
        # literature formulas expressed through an observable measured on the state itself
        if fam == 'werner':
            fexp = float(np.trace(rho @ swap_op(d)).real)  # f = Tr(rho SWAP)
            g_ref = (1 - math.sqrt(max(0.0, 1 - fexp * fexp))) / 2 if fexp < 0 else 0.0
            ctx.close(vals['GME'], g_ref, 1e-6, 'Werner GME = (1-sqrt(1-f^2))/2 with f = Tr(rho SWAP) < 0 (Wei-Goldbart)')
            ctx.close(vals['eof'], binent(g_ref) if fexp < 0 else 0.0, 1e-6, 'Werner eof = h((1-sqrt(1-f^2))/2) (Vollbrecht-Werner)')
        else:
            Fexp = float((phi @ rho @ phi).real)  # fidelity with the maximally entangled state
            g_ref = 1 - (math.sqrt(Fexp) + math.sqrt(max(0.0, (1 - Fexp) * (d - 1)))) ** 2 / d if Fexp >= 1 / d else 0.0
            ctx.close(vals['GME'], max(g_ref, 0.0), 1e-6, 'isotropic GME = 1 - (sqrt F + sqrt((1-F)(d-1)))^2/d (Wei-Goldbart)')
        if d == 2:
            ctx.close(vals['eof'], nq.entangle.get_eof_2qubit(rho), 1e-9, f'{fam} eof = generic two-qubit formula (d=2)')
            ctx.close(vals['GME'], nq.entangle.get_gme_2qubit(rho), 1e-7, f'{fam} GME = generic two-qubit formula (d=2)')  # sqrt(1-C^2) at C=1
        if fam == 'isotropic':
            ctx.close(vals['eof'], iso_eof_ref(d, alpha), 1e-9, 'isotropic eof = Terhal-Vollbrecht formula')
            ctx.close(float(np.asarray(S.get_Isotropic_eof(d, 1.0))), math.log(d), 1e-12, 'isotropic eof(alpha=1) = log d')
            ctx.close(np.asarray(S.get_Isotropic_eof(d, 1), dtype=np.float64), math.log(d), 1e-12, 'isotropic eof: integer alpha = float alpha')
            ctx.close(np.asarray(S.get_Isotropic_eof(d, np.array([0, 1])), dtype=np.float64), [0.0, math.log(d)], 1e-12, 'isotropic eof: integer alpha array = float alpha array')
            arr = S.get_Isotropic_eof(d, np.array([alpha, lo, 1.0]))
            ctx.close(arr, [vals['eof'], 0.0, math.log(d)], 1e-12, 'array argument = element-wise')
        else:
            ctx.close(np.asarray(S.get_Werner_eof(d, 1), dtype=np.float64), np.asarray(S.get_Werner_eof(d, 1.0), dtype=np.float64), 1e-15, 'Werner eof: integer alpha = float alpha')
            ctx.close(np.asarray(S.get_Werner_eof(d, np.array([-1, 0, 1])), dtype=np.float64), np.asarray(S.get_Werner_eof(d, np.array([-1.0, 0.0, 1.0])), dtype=np.float64), 1e-15,
                      'Werner eof: integer alpha array = float alpha array')
            arr = S.get_Werner_eof(d, np.array([alpha, lo]))
            ctx.close(arr, [vals['eof'], 0.0], 1e-12, 'array argument = element-wise')
            if d == 2:
                ctx.close(float(np.asarray(S.get_Werner_eof(2, 1.0))), math.log(2), 1e-12, 'Werner(2) eof at alpha=1 = log 2')
        return
    if isinstance(u, str):
        u = {'thr': 0.6, 'thr+': 0.6 + 1e-9, 'thr-': 0.6 - 1e-9, 'thr2': 0.8, 'thr2+': 0.8 + 1e-9}[u]
    bucket = 'endpoint' if u in (0.0, 1.0) else 'interior'
    ctx.note(klass=fam, desc=[fam, bucket, round(u, 1)], nontrivial=True, labels=[fam, bucket])
    if fam == 'horodecki2x4':
        ctx.fresh(lambda: S.get_bes2x4_Horodecki1997(u), FRESH)
        rho = S.get_bes2x4_Horodecki1997(u)
        ctx.require(rho.shape == (8, 8), 'Horodecki 2x4: shape')
        w = np.eye(8) * u
        for i, j in ((0, 5), (1, 6), (2, 7)):
            w[i, j] = w[j, i] = u
        w[4, 4] = w[7, 7] = (1 + u) / 2
        w[4, 7] = w[7, 4] = math.sqrt(1 - u * u) / 2
        ctx.close(rho, w / (7 * u + 1), 1e-14, 'Horodecki 2x4: matrix of the 1997 paper')
        _is_dm(ctx, rho, 'Horodecki 2x4')
        for sysi in ([0], [1]):
            ctx.require(ref.min_eig(ref.partial_transpose(rho, [2, 4], sysi)) > -1e-12, 'Horodecki 2x4: PPT on the whole range', f'b={u}')
    elif fam == 'horodecki3x3':
        ctx.fresh(lambda: S.get_bes3x3_Horodecki1997(u), FRESH)
        rho = S.get_bes3x3_Horodecki1997(u)
        ctx.require(rho.shape == (9, 9), 'Horodecki 3x3: shape')
        w = np.eye(9) * u
        for i, j in ((0, 4), (0, 8), (4, 8)):
            w[i, j] = w[j, i] = u
        w[6, 6] = w[8, 8] = (1 + u) / 2
        w[6, 8] = w[8, 6] = math.sqrt(1 - u * u) / 2
        ctx.close(rho, w / (8 * u + 1), 1e-14, 'Horodecki 3x3: matrix of the 1997 paper')
        _is_dm(ctx, rho, 'Horodecki 3x3')
        ctx.require(ref.min_eig(ref.partial_transpose(rho, [3, 3], [1])) > -1e-12, 'Horodecki 3x3: PPT on the whole range', f'a={u}')
    else:
        q = -2.5 + 5 * u
        ctx.fresh(lambda: S.get_2qutrit_Antoine2022(q), FRESH)
        rho = S.get_2qutrit_Antoine2022(q)
        ctx.require(rho.shape == (9, 9), 'Antoine2022: shape')
        _is_dm(ctx, rho, 'Antoine2022')
        ppt = ref.min_eig(ref.partial_transpose(rho, [3, 3], [1])) > -1e-12
        if abs(q) <= 1.5:
            ctx.require(ppt, 'Antoine2022: PPT for |q|<=1.5', f'q={q}')
        elif abs(q) > 1.5 + 1e-9:
            ctx.require(not ppt, 'Antoine2022: NPT for |q|>1.5', f'q={q}')


# --------------------------------------------------------------------------------------------- UPB
def cases_upb(tier):
    out = [dict(kind='tiles'), dict(kind='pyramid'), dict(kind='feng4x4'), dict(kind='min4x4'), dict(kind='feng2x2x2x2')]
    out += [dict(kind='quadres', args=a) for a in (3, 7, 9)] + [dict(kind='genshifts', args=a) for a in (3, 5, 7)]
    out += [dict(kind='gentiles1', args=a) for a in (4, 6, 8)]
    out += [dict(kind='gentiles2', args=[m, n]) for m in range(3, 6) for n in range(max(4, m), 7)]
    out += [dict(kind='sixparam', prng=s) for s in range(8)]
    return out


def run_upb(ctx, case):
    nq = _nq()
    kind = case['kind']
    args = case.get('args')
    if kind == 'sixparam':
        r = ref.rng(case['prng'] + 100)
        ang = r.uniform(0.25, math.pi / 2 - 0.25, size=6) + r.integers(0, 4, size=6) * (math.pi / 2)
        args = ang
    elif isinstance(args, list):
        args = tuple(args)
    ctx.note(klass=kind, desc=[kind, case.get('args'), case.get('prng')], nontrivial=(kind != 'tiles'), labels=[kind])
    ctx.fresh(lambda: list(nq.entangle.load_upb(kind, args, return_bes=True, ignore_warning=True)), 'a second call is not affected by editing the arrays returned by the first')
    upb, bes = nq.entangle.load_upb(kind, args, return_bes=True, ignore_warning=True)
    dims = [x.shape[1] for x in upb]
    N = upb[0].shape[0]
    D = int(np.prod(dims))
    ctx.require(all(x.shape[0] == N for x in upb), 'UPB: same number of vectors for every party')
    for x in upb:
        ctx.close(np.linalg.norm(x, axis=1), np.ones(N), 1e-10, 'UPB: local vectors normalised')
    prod = np.stack([ref.kron(*[x[i].reshape(-1, 1) for x in upb]).reshape(-1) for i in range(N)])
    prod_lib = nq.entangle.load_upb(kind, args, return_product=True, ignore_warning=True)
    ctx.close(prod_lib, prod, 1e-12, 'return_product = Kronecker products of the local vectors')
    ctx.close(prod.conj() @ prod.T, np.eye(N), 1e-10, 'UPB: product vectors orthonormal')
    proj = sum(np.outer(v, v.conj()) for v in prod)
    want = (np.eye(D) - proj) / (D - N)
    ctx.require(bes.shape == (D, D), 'BES shape')
    ctx.close(bes, want, 1e-10, 'BES = (I - sum |u><u|)/(D - |UPB|)')
    _is_dm(ctx, bes, 'BES', 1e-10)
    ev = np.linalg.eigvalsh((bes + bes.conj().T) / 2)
    ctx.require(int((ev > 1e-9).sum()) == D - N, 'BES rank = D - |UPB|', f'{int((ev > 1e-9).sum())} vs {D - N}')
    for p in range(len(dims)):
        ctx.require(ref.min_eig(ref.partial_transpose(bes, dims, [p])) > -1e-10, 'BES is PPT across every party', f'party {p}')
    ctx.close(nq.entangle.upb_to_bes(upb) if hasattr(nq.entangle, 'upb_to_bes') else bes, bes, 1e-12, 'upb_to_bes consistent')


# --------------------------------------------------------------------------------------------- POVM / bases
def cases_povm(tier):
    out = [dict(kind='tetra', n=n) for n in range(1, 5)]
    for d in range(2, 9):
        for a in (0.0, 0.7, math.pi / 3, 2.5, -1.1):
            for wc in (False, True):
                out.append(dict(kind='cheb', d=d, alpha=a, wc=wc))
    return out


def run_povm(ctx, case):
    nq = _nq()
    if case['kind'] == 'tetra':
        n = case['n']
        ctx.note(klass='tetra', desc=['tetra', n], nontrivial=True)
        ctx.fresh(lambda: nq.utils.get_tetrahedron_POVM(n), 'a second call is not affected by editing the array returned by the first')
        E = nq.utils.get_tetrahedron_POVM(n)
        ctx.require(E.shape == (4 ** n, 2 ** n, 2 ** n), 'tetrahedron POVM shape')
        ctx.close(E, E.conj().transpose(0, 2, 1), 1e-12, 'POVM elements Hermitian')
        ctx.require(min(ref.min_eig(e) for e in E) > -1e-12, 'POVM elements positive')
        ctx.close(E.sum(axis=0), np.eye(2 ** n), 1e-12, 'POVM resolves the identity')
        if n == 1:
            G = np.einsum('aij,bji->ab', E, E).real
            ctx.close(G, np.full((4, 4), 1 / 12) + np.eye(4) * (1 / 4 - 1 / 12), 1e-12, 'single-qubit tetrahedron is a SIC-POVM')
        return
    d, alpha, wc = case['d'], case['alpha'], case['wc']
    ctx.note(klass='cheb', desc=['cheb', d, wc, alpha], nontrivial=True)
    ctx.fresh(lambda: list(nq.unique_determine.get_chebshev_orthonormal(d, alpha, with_computational_basis=wc, return_basis=True)),
              'a second call is not affected by editing the arrays returned by the first')
    P, basis = nq.unique_determine.get_chebshev_orthonormal(d, alpha, with_computational_basis=wc, return_basis=True)
    nb = 5 if wc else 4
    ctx.require(P.shape == (nb * d, d, d) and len(basis) == nb, 'Chebyshev bases: shape')
    P2 = nq.unique_determine.get_chebshev_orthonormal(d, alpha, with_computational_basis=wc)
    ctx.close(P2, P, 0, 'return_basis does not change the projectors')
    for k in range(nb):
        B = np.asarray(basis[k])
        ctx.close(B @ B.conj().T, np.eye(d), 1e-10, 'each Chebyshev basis is orthonormal')
        blk = P[k * d:(k + 1) * d]
        ctx.close(blk.sum(axis=0), np.eye(d), 1e-10, 'projectors of each basis resolve the identity')
        ctx.close(blk, np.einsum('ai,aj->aij', B, B.conj()), 1e-12, 'projectors = |b><b|')


SUBCHECKS = [
    SubCheck('kets', run_kets, cases=cases_kets, shards=(4, 8)),
    SubCheck('families', run_fam, strategy=_strat_fam, examples=(1200, 8000), shards=(3, 16), floors={'threshold': 0.1, 'endpoint': 0.05}),
    SubCheck('upb', run_upb, cases=cases_upb, shards=(8, 16)),
    SubCheck('povm_bases', run_povm, cases=cases_povm, shards=(2, 4)),
]
