"""C15 - SU(2)/SO(3) conversions are consistent for every rotation, gimbal lock included."""
import math
import numpy as np
from hypothesis import strategies as st

from ..core import SubCheck
from .. import ref

PROPERTY = 'C15'
RULE = ('hypothesis: Euler angles with beta class in {exactly 0, exactly pi, generic [0.05, pi-0.05], near band [1e-9, 0.05] and its mirror}, alpha/gamma from a grid of '
        'multiples of pi/4 (all quadrants of alpha+-gamma, wrap-around) or random, gamma in [0,4pi) for SU(2); batches (k,), (k,l) mixing degenerate and generic entries; '
        'input matrices built by vf from explicit cos/sin products with EXACT zeros/ones in the degenerate classes (and also via the library constructors); Haar rotations; '
        'spin j2=0..10; Clebsch-Gordan pairs with j1+j2<=4 (6 thorough). Oracle: matrix-level round trips (angles are not unique), homomorphism identities, '
        'D^j = exp(-i a Jz) exp(-i b Jy) exp(-i g Jz) with my own ladder-operator matrices, su(2) commutators, orthogonality and intertwining of the CG blocks. '
        'Non-trivial = beta in {0,pi} or near band or a mixed batch; distinct = (function, beta classes in the batch, quadrant of alpha+-gamma, batch shape).'
        ' Representation clauses are sign-exact (D^{1/2}(U)=U, D(U1U2)=D(U1)D(U2)) including exactly diagonal / anti-diagonal / minus-identity group elements; second-call clause for angular momentum operators and Clebsch-Gordan tables.'
        ' Angles given as the integer 0.')
RULE += ' Every Clebsch-Gordan block is checked for its shape (2J+1, 2j1+1, 2j2+1), including j1=0 and j2=0.'
RULE += ' angle_to_su2 / angle_to_so3 are also called with angle arrays that broadcast against each other (column of alpha, scalar beta, row of gamma) and compared element-wise.'
ASSUMPTIONS = ['round trips are judged on the matrices at 1e-6 (the algorithm switches to the gimbal-lock branch below zero_eps=1e-7, so an O(1e-7) error is inherent there)',
               'SU(2) round trip is accepted up to the documented overall sign',
               'Clebsch-Gordan coefficients come from sympy inside numqi; they are judged only through orthogonality and the intertwining relation']

TWO_PI = 2 * math.pi


def _g():
    import numqi
    return numqi.group


def rz(a):
    c, s = math.cos(a), math.sin(a)
    return np.array([[c, -s, 0], [s, c, 0], [0, 0, 1.0]])


def ry(b, cls):
    if cls == 'zero':
        c, s = 1.0, 0.0
    elif cls == 'pi':
        c, s = -1.0, 0.0
    else:
        c, s = math.cos(b), math.sin(b)
    return np.array([[c, 0, s], [0, 1.0, 0], [-s, 0, c]])


def so3_ref(a, b, g, cls):
    return rz(a) @ ry(b, cls) @ rz(g)


def su2_ref(a, b, g, cls):
    if cls == 'zero':
        cb, sb = 1.0, 0.0
    elif cls == 'pi':
        cb, sb = 0.0, 1.0
    else:
        cb, sb = math.cos(b / 2), math.sin(b / 2)
    ep, em = np.exp(0.5j * (a + g)), np.exp(0.5j * (a - g))
    return np.array([[cb * np.conj(ep), -sb * np.conj(em)], [sb * em, cb * ep]])


_grid = st.integers(0, 15).map(lambda k: k * math.pi / 4)


@st.composite
def _angle_triple(draw, su2=False):
    cls = draw(st.sampled_from(['zero', 'pi', 'generic', 'generic', 'near0', 'nearpi']))
    if cls == 'zero':
        b = 0.0
    elif cls == 'pi':
        b = math.pi
    elif cls == 'generic':
        b = draw(st.floats(0.05, math.pi - 0.05))
    else:
        e = 10 ** draw(st.floats(-9, math.log10(0.05)))
        b = e if cls == 'near0' else math.pi - e
    a = draw(st.one_of(_grid, st.floats(0, TWO_PI, exclude_max=True))) % TWO_PI
    g = draw(st.one_of(_grid, st.floats(0, 2 * TWO_PI if su2 else TWO_PI, exclude_max=True))) % (2 * TWO_PI if su2 else TWO_PI)
    return [a, b, g, cls]


@st.composite
def _strat_rt(draw, tier='quick'):
    shape = draw(st.sampled_from([[], [], [1], [3], [5], [2, 2], [2, 3]]))
    n = int(np.prod(shape)) if shape else 1
    su2 = draw(st.booleans())
    return dict(su2=su2, shape=shape, angles=[draw(_angle_triple(su2)) for _ in range(n)], via_lib=draw(st.booleans()))


def run_roundtrip(ctx, case):
    g = _g()
    su2, shape, angles = case['su2'], tuple(case['shape']), case['angles']
    classes = sorted(set(x[3] for x in angles))
    degenerate = any(c in ('zero', 'pi') for c in classes)
    mixed = len(shape) > 0 and len(classes) > 1 and degenerate
    quad = sorted(set(int(((x[0] + x[2]) % TWO_PI) // (math.pi / 2)) for x in angles))[:4]
    ctx.note(klass=('su2' if su2 else 'so3'), desc=['su2' if su2 else 'so3', classes, quad, list(shape)],
             nontrivial=(degenerate or 'near0' in classes or 'nearpi' in classes or mixed),
             labels=['su2' if su2 else 'so3', 'mixed batch' if mixed else 'uniform batch', 'degenerate' if degenerate else 'no degenerate'] + classes)
    builder = su2_ref if su2 else so3_ref
    mats = np.stack([builder(*x) for x in angles])
    d = 2 if su2 else 3
    al = np.array([x[0] for x in angles]).reshape(shape)
    be = np.array([x[1] for x in angles]).reshape(shape)
    ga = np.array([x[2] for x in angles]).reshape(shape)
    lib = (g.angle_to_su2 if su2 else g.angle_to_so3)(al, be, ga)
    ctx.require(lib.shape == shape + (d, d), 'angle_to_*: shape')
    ctx.close(lib.reshape(-1, d, d), mats, 1e-12, 'angle_to_* = Rz(alpha) Ry(beta) Rz(gamma)')
    # angles written as Python / numpy integers (the literal 0, an integer array): alpha = 0 or gamma = 0 with the other angles as drawn
    for which in (0, 2):
        a_int = [al, be, ga]
        a_int[which] = np.zeros(shape, dtype=np.int64) if shape else 0
        a_flt = [al, be, ga]
        a_flt[which] = np.zeros(shape, dtype=np.float64) if shape else 0.0
        f_ = g.angle_to_su2 if su2 else g.angle_to_so3
        ctx.close(f_(*a_int), f_(*a_flt), 1e-15, 'angle_to_*: an angle given as an integer 0 acts like the float 0.0')
    if len(angles) >= 2:
        # the three angle arguments broadcast against each other (np.broadcast_shapes in the library): alpha down a column, gamma along a row, one scalar beta
        f_ = g.angle_to_su2 if su2 else g.angle_to_so3
        av, gv, b0, cls0 = al.reshape(-1), ga.reshape(-1)[:3], float(be.reshape(-1)[0]), angles[0][3]
        grid = f_(av[:, None], b0, gv[None, :])
        ctx.require(grid.shape == (len(av), len(gv), d, d), 'angle_to_*: broadcast shape', str(grid.shape))
        want = np.stack([np.stack([builder(float(x), b0, float(z), cls0) for z in gv]) for x in av])
        ctx.close(grid, want, 1e-12, 'angle_to_*: angles that broadcast against each other (column alpha, scalar beta, row gamma) = element-wise')
        ctx.label('broadcast angles')
    M = lib if case['via_lib'] else mats.reshape(shape + (d, d))
    M_in = np.array(M, copy=True)
    out = (g.su2_to_angle if su2 else g.so3_to_angle)(M_in)
    ctx.close(M_in, M, 0, 'angle extraction does not modify the matrix it is given')
    ctx.require(len(out) == 3, 'three angles returned')
    a2, b2, g2 = [np.asarray(x, dtype=np.float64) for x in out]
    ctx.require(a2.shape == shape and b2.shape == shape and g2.shape == shape, 'angle shapes follow the batch shape', f'{a2.shape} vs {shape}')
    ctx.finite(np.stack([a2.reshape(-1), b2.reshape(-1), g2.reshape(-1)]), 'extracted angles finite')
    eps = 1e-9
    ctx.require(np.all(a2 >= -eps) and np.all(a2 <= TWO_PI + eps) and np.all(b2 >= -eps) and np.all(b2 <= math.pi + eps) and np.all(g2 >= -eps)
                and np.all(g2 <= (2 if su2 else 1) * TWO_PI + eps), 'angles in the documented ranges', f'{a2.max()} {b2.max()} {g2.max()}')
    back = (g.angle_to_su2 if su2 else g.angle_to_so3)(a2, b2, g2).reshape(-1, d, d)
    ref_m = np.asarray(M).reshape(-1, d, d)
    if su2:
        err = np.minimum(np.abs(back - ref_m).max(axis=(1, 2)), np.abs(back + ref_m).max(axis=(1, 2)))
        ctx.small(err, 5e-6, 'SU(2): angles -> matrix reproduces the input up to sign')
    else:
        ctx.close(back, ref_m, 5e-6, 'SO(3): angles -> matrix reproduces the input')
    # a batch is converted element-wise
    if len(shape) > 0:
        for i, m in enumerate(ref_m):
            o = (g.su2_to_angle if su2 else g.so3_to_angle)(m.copy())
            ctx.close(np.array([float(o[0]), float(o[1]), float(o[2])]), np.array([a2.reshape(-1)[i], b2.reshape(-1)[i], g2.reshape(-1)[i]]), 1e-12,
                      'batched conversion = element-wise conversion')


# --------------------------------------------------------------------------------------------- homomorphism
@st.composite
def _strat_hom(draw, tier='quick'):
    return dict(prng=draw(st.integers(0, 2 ** 31)), special=draw(st.sampled_from(['none', 'zero', 'pi', 'minus'])), delta=draw(_grid), shape=draw(st.sampled_from([[], [3], [2, 2]])))


def _haar_su2(r, n):
    out = []
    for _ in range(n):
        v = r.normal(size=4)
        v /= np.linalg.norm(v)
        a, b = v[0] + 1j * v[1], v[2] + 1j * v[3]
        out.append(np.array([[a, b], [-np.conj(b), np.conj(a)]]))
    return np.stack(out)


def run_hom(ctx, case):
    g = _g()
    r = ref.rng(case['prng'])
    shape = tuple(case['shape'])
    n = int(np.prod(shape)) if shape else 1
    ctx.note(klass='hom', desc=[case['special'], list(shape)], nontrivial=case['special'] != 'none', labels=[case['special']])
    U1, U2 = _haar_su2(r, n), _haar_su2(r, n)
    d = case['delta']
    if case['special'] == 'zero':
        U1[0] = su2_ref(d, 0, 0.3, 'zero')
    elif case['special'] == 'pi':
        U1[0] = su2_ref(d, math.pi, 0.3, 'pi')
    elif case['special'] == 'minus':
        U1[0] = -np.eye(2)
    U1b, U2b = U1.reshape(shape + (2, 2)), U2.reshape(shape + (2, 2))
    R1, R2, R12 = g.su2_to_so3(U1b), g.su2_to_so3(U2b), g.su2_to_so3(U1b @ U2b)
    ctx.require(R1.shape == shape + (3, 3), 'su2_to_so3: shape')
    ctx.require(not np.iscomplexobj(R1), 'su2_to_so3: real output')
    ctx.close(R12, R1 @ R2, 1e-12, 'su2_to_so3 is a homomorphism')
    ctx.close(g.su2_to_so3(-U1b), R1, 1e-14, 'su2_to_so3(-U) = su2_to_so3(U)')
    R1f = R1.reshape(-1, 3, 3)
    ctx.close(R1f @ R1f.transpose(0, 2, 1), np.broadcast_to(np.eye(3), R1f.shape), 1e-12, 'image orthogonal')
    ctx.close(np.linalg.det(R1f), np.ones(n), 1e-12, 'image has determinant one')
    # R(U) v.sigma = U (v.sigma) U^dagger
    for U, R in zip(U1, R1f):
        for k, s in enumerate([ref.SX, ref.SY, ref.SZ]):
            want = sum(R[j, k] * [ref.SX, ref.SY, ref.SZ][j] for j in range(3))
            ctx.close(U @ s @ U.conj().T, want, 1e-12, 'U sigma_k U^dagger = sum_j R_jk sigma_j')
    V = g.so3_to_su2(R1)
    Vf = V.reshape(-1, 2, 2)
    err = np.minimum(np.abs(Vf - U1).max(axis=(1, 2)), np.abs(Vf + U1).max(axis=(1, 2)))
    ctx.small(err, 1e-6, 'so3_to_su2(su2_to_so3(U)) = +-U')
    ctx.close(g.su2_to_so3(V), R1, 1e-6, 'su2_to_so3(so3_to_su2(R)) = R')


# --------------------------------------------------------------------------------------------- irreps
def spin_ops(j2):
    """standard ladder-operator matrices, basis m = j, j-1, ..., -j"""
    j = j2 / 2
    ms = [j - k for k in range(j2 + 1)]
    jz = np.diag(ms).astype(np.complex128)
    jp = np.zeros((j2 + 1, j2 + 1), dtype=np.complex128)
    for k in range(1, j2 + 1):
        m = ms[k]
        jp[k - 1, k] = math.sqrt(j * (j + 1) - m * (m + 1))
    jx = (jp + jp.conj().T) / 2
    jy = (jp - jp.conj().T) / 2j
    return jx, jy, jz


@st.composite
def _strat_irrep(draw, tier='quick'):
    return dict(j2=draw(st.integers(0, 10)), a1=draw(_angle_triple(True)), a2=draw(_angle_triple(True)), shape=draw(st.sampled_from([[], [2]])), prng=draw(st.integers(0, 2 ** 31)),
                turns=[draw(st.integers(-2, 2)) for _ in range(3)])


def run_irrep(ctx, case):
    g = _g()
    j2 = case['j2']
    A1, A2 = list(case['a1']), list(case['a2'])
    # Euler angles are accepted outside their principal ranges (negative, more than one turn); for SU(2) a full turn of alpha or gamma flips the sign
    tn = case.get('turns', [0, 0, 0])
    if A1[3] not in ('zero', 'pi'):
        A1[0] += TWO_PI * tn[0]
        A1[2] += TWO_PI * tn[2]
    if any(tn):
        ctx.label('angles outside the principal range')
    deg = A1[3] in ('zero', 'pi') or A2[3] in ('zero', 'pi')
    ctx.note(klass='irrep', desc=[j2, A1[3], A2[3], case['shape']], nontrivial=deg or j2 >= 3, labels=[f'j2={j2}', A1[3]])
    jx, jy, jz = spin_ops(j2)
    U1, U2 = su2_ref(*A1), su2_ref(*A2)
    n = j2 + 1
    D1 = g.get_su2_irrep(j2, A1[0], A1[1], A1[2])
    ctx.require(D1.shape == (n, n), 'irrep shape')
    want = ref.expm_herm(jz, A1[0]) @ ref.expm_herm(jy, A1[1]) @ ref.expm_herm(jz, A1[2])
    ctx.close(D1, want, 1e-9, 'D^j(angles) = exp(-i a Jz) exp(-i b Jy) exp(-i g Jz)')
    ctx.close(D1 @ D1.conj().T, np.eye(n), 1e-9, 'D^j unitary')
    D, matd = g.get_su2_irrep(j2, A1[0], A1[1], A1[2], return_matd=True)
    ctx.require(not np.iscomplexobj(matd), 'Wigner small-d real')
    ctx.close(matd, ref.expm_herm(jy, A1[1]).real, 1e-9, 'Wigner small-d = exp(-i b Jy)')
    ctx.small(ref.expm_herm(jy, A1[1]).imag, 1e-12, 'reference small-d real')
    # matrix input and homomorphism D(U1 U2) = D(U1) D(U2)
    Dm1, Dm2, Dm12 = g.get_su2_irrep(j2, U1), g.get_su2_irrep(j2, U2), g.get_su2_irrep(j2, U1 @ U2)
    sign_ok = (lambda X, Y: min(np.abs(X - Y).max(), np.abs(X + Y).max() if j2 % 2 == 1 else np.inf))
    ctx.close(Dm1, want, 1e-5, 'D^j(matrix U(angles)) = D^j(angles), sign included')
    # the matrix form resolves the SU(2) sign (gamma in (0,4pi)): D is a representation of SU(2) itself, exactly, also where cos(beta/2) = 0
    ctx.close(Dm12, Dm1 @ Dm2, 1e-5, 'D(U1 U2) = D(U1) D(U2)')
    if j2 == 1:
        ctx.close(Dm1, U1, 1e-6, 'D^{1/2}(U) = U')
    # exactly anti-diagonal (beta = pi, a == 0) and exactly diagonal (beta = 0, b == 0) group elements
    ph = np.exp(1j * (A1[0] - A1[2]) / 2)
    for name, Ue in (('anti-diagonal', np.array([[0, -np.conj(ph)], [ph, 0]])), ('diagonal', np.array([[np.conj(ph), 0], [0, ph]])), ('minus identity', -np.eye(2, dtype=np.complex128))):
        De = g.get_su2_irrep(j2, Ue)
        if j2 == 1:
            ctx.close(De, Ue, 1e-6, f'D^{{1/2}}(U) = U for an exactly {name} U')
        ctx.close(g.get_su2_irrep(j2, Ue @ U2), De @ Dm2, 1e-5, f'D(U1 U2) = D(U1) D(U2) with an exactly {name} U1')
        ctx.close(g.get_su2_irrep(j2, U2 @ Ue), Dm2 @ De, 1e-5, f'D(U1 U2) = D(U1) D(U2) with an exactly {name} U2')
    if j2 == 2:
        ctx.close(np.trace(Dm1).real, np.trace(g.su2_to_so3(U1)), 1e-6, 'D^1 is equivalent to the SO(3) image (characters agree)')
    if j2 == 0:
        ctx.close(Dm1, np.ones((1, 1)), 0, 'trivial representation')
    # batched angles
    if case['shape']:
        al = np.array([A1[0], A2[0]])
        be = np.array([A1[1], A2[1]])
        ga = np.array([A1[2], A2[2]])
        Db = g.get_su2_irrep(j2, al, be, ga)
        ctx.require(Db.shape == (2, n, n), 'batched irrep shape')
        ctx.close(Db[0], D1, 1e-12, 'batched irrep = element-wise')
        Ub = np.stack([U1, U2])
        Dmb = g.get_su2_irrep(j2, Ub)
        ctx.close(Dmb[0], Dm1, 1e-9, 'batched matrix input = element-wise')


def cases_am(tier):
    out = [dict(kind='J', j2=j2) for j2 in range(0, 11)]
    cap = 5 if tier == 'quick' else 7
    out += [dict(kind='CG', j1=a, j2=b) for a in range(0, cap + 1) for b in range(0, cap + 1 - a)]
    return out


def run_am(ctx, case):
    import numqi
    ms = numqi.matrix_space
    if case['kind'] == 'J':
        j2 = case['j2']
        ctx.note(klass='J', desc=['J', j2], nontrivial=True)
        ctx.fresh(lambda: list(ms.get_angular_momentum_op(j2)), 'get_angular_momentum_op: a second call is not affected by editing the arrays returned by the first')
        jx, jy, jz = [np.asarray(x, dtype=np.complex128) for x in ms.get_angular_momentum_op(j2)]
        rx, ry_, rz_ = spin_ops(j2)
        ctx.close(jx, rx, 1e-12, 'Jx = ladder formula')
        ctx.close(jy, ry_, 1e-12, 'Jy = ladder formula')
        ctx.close(jz, rz_, 1e-12, 'Jz = diag(j..-j)')
        ctx.close(jx @ jy - jy @ jx, 1j * jz, 1e-12, '[Jx,Jy] = i Jz')
        ctx.close(jy @ jz - jz @ jy, 1j * jx, 1e-12, '[Jy,Jz] = i Jx')
        ctx.close(jz @ jx - jx @ jz, 1j * jy, 1e-12, '[Jz,Jx] = i Jy')
        j = j2 / 2
        ctx.close(jx @ jx + jy @ jy + jz @ jz, j * (j + 1) * np.eye(j2 + 1), 1e-12, 'J^2 = j(j+1)')
        return
    a, b = case['j1'], case['j2']
    ctx.note(klass='CG', desc=['CG', a, b], nontrivial=True)
    ctx.fresh(lambda: [c for _, c in ms.get_clebsch_gordan_coeffient(a, b)], 'get_clebsch_gordan_coeffient: a second call is not affected by editing the arrays returned by the first')
    cg = ms.get_clebsch_gordan_coeffient(a, b)
    js = [x[0] for x in cg]
    ctx.require(js == list(range(abs(a - b), a + b + 1, 2)), 'total spins |j1-j2|..j1+j2')
    ctx.require(all(np.shape(c) == (j + 1, a + 1, b + 1) for j, c in cg), 'every Clebsch-Gordan block has the layout (2j+1, 2j1+1, 2j2+1)', f'{[np.shape(c) for _, c in cg]} for j1={a}/2 j2={b}/2')
    C = np.concatenate([c.reshape(j + 1, (a + 1) * (b + 1)) for j, c in cg], axis=0)
    ctx.require(C.shape == ((a + 1) * (b + 1), (a + 1) * (b + 1)), 'CG table is square')
    ctx.close(C @ C.T, np.eye(C.shape[0]), 1e-10, 'Clebsch-Gordan blocks form an orthogonal matrix')
    ops1, ops2 = spin_ops(a), spin_ops(b)
    for k in range(3):
        tot = np.kron(ops1[k], np.eye(b + 1)) + np.kron(np.eye(a + 1), ops2[k])
        blocks = np.zeros_like(tot)
        c0 = 0
        for j in js:
            blocks[c0:c0 + j + 1, c0:c0 + j + 1] = spin_ops(j)[k]
            c0 += j + 1
        ctx.close(C @ tot @ C.T, blocks, 1e-10, 'CG blocks intertwine J1 x 1 + 1 x J2 with the block spins')


def cases_cube(tier):
    import itertools
    out = []
    for perm in itertools.permutations(range(3)):
        for signs in itertools.product([1, -1], repeat=3):
            M = np.zeros((3, 3), dtype=np.int64)
            for i, (p, sg) in enumerate(zip(perm, signs)):
                M[i, p] = sg
            if round(np.linalg.det(M)) == 1:
                out.append(dict(M=M.tolist()))
    return out


def run_cube(ctx, case):
    """the 24 rotations of the cube written with integers (all of them have beta in {0, pi/2, pi}): float and integer dtypes, single and as one batch"""
    g = _g()
    M = np.array(case['M'])
    ctx.note(klass='cube', desc=case['M'], nontrivial=True)
    for dt in (np.float64, np.int64, np.int32):
        A = M.astype(dt)
        al, be, ga = g.so3_to_angle(A.copy())
        ctx.finite(np.array([al, be, ga], dtype=np.float64), 'cube rotation: angles finite')
        ctx.close(g.angle_to_so3(al, be, ga), M, 5e-6, 'cube rotation (integer or float dtype): angles -> matrix reproduces the input')
        U = g.so3_to_su2(A.copy())
        ctx.close(g.su2_to_so3(U), M, 5e-6, 'cube rotation: su2_to_so3(so3_to_su2(R)) = R')
        ctx.tick()


SUBCHECKS = [
    SubCheck('cube_rotations', run_cube, cases=cases_cube, shards=(2, 2)),
    SubCheck('roundtrip', run_roundtrip, strategy=_strat_rt, examples=(2500, 15000), shards=(3, 16), floors={'mixed batch': 0.1, 'degenerate': 0.3}),
    SubCheck('homomorphism', run_hom, strategy=_strat_hom, examples=(400, 3000)),
    SubCheck('irreps', run_irrep, strategy=_strat_irrep, examples=(500, 4000), shards=(2, 16)),
    SubCheck('angular_momentum_cg', run_am, cases=cases_am, shards=(6, 16)),
]
