"""C17 - partial traces and the Dicke-basis reduction equal the explicit contraction."""
import math
import itertools
import numpy as np
from hypothesis import strategies as st

from ..core import SubCheck
from .. import ref

PROPERTY = 'C17'
RULE = ('hypothesis: dimension lists of length 2..5 with entries 2..4 (product <= 1024) and, per list, EVERY non-empty keep-subset passed as '
        'set/list/tuple/int; Dicke bases enumerated for (copies 1..5, dim 2..4, dim^k <= 1024 [4096 thorough]); A (x) Sym^k(B) vectors for '
        'dimA,dimB 2..4, k 1..5 while dA*dB^k <= 1024 [4096], numpy and torch. Oracle: explicit loops / successive np.trace, my own Dicke '
        'vectors (uniform superposition of distinct arrangements), explicit embedding + tracing k-1 copies. Non-trivial = >=3 subsystems with a '
        'non-contiguous keep-set or unequal dims; Dicke with k>=2 and dimB>=3. Distinct = (dims, kind) / (k, dim) / (dA, dB, k, backend).'
        ' Operators also Fortran-ordered / strided / read-only, of integer / complex64 / real dtype, dims and keep also as (negative-stride) integer arrays; vectors of norm 0.5 and 3 (trace = squared norm); second-call clause for Dicke / get_dicke_basis.'
        ' Real-dtype torch weight tensors; an earlier partial trace compared after a later call with the same dims / keep-set.')
ASSUMPTIONS = ['the order of the Dicke basis is the documented get_dicke_klist order (each klist itself is validated independently)',
               'empty keep-set is outside the domain (the function reshapes to a float-sized array there)']


def _nq():
    import numqi
    return numqi


# --------------------------------------------------------------------------------------------- partial trace
LAYOUTS = ['C', 'F', 'view_of_transpose', 'strided', 'readonly']


def _with_layout(a, layout):
    """the same operator (equal values) in a different memory layout"""
    if layout == 'F':
        return np.asfortranarray(a)
    if layout == 'view_of_transpose':
        return np.ascontiguousarray(a.T).T
    if layout == 'strided':
        big = np.zeros((2 * a.shape[0], 3 * a.shape[1]), dtype=a.dtype)
        big[::2, 1::3] = a
        return big[::2, 1::3]
    if layout == 'readonly':
        b = a.copy()
        b.flags.writeable = False
        return b
    return np.ascontiguousarray(a)


@st.composite
def _strat_pt(draw, tier='quick'):
    n = draw(st.integers(2, 5))
    dims = []
    prod = 1
    for _ in range(n):
        choices = [d for d in (2, 3, 4) if prod * d * (2 ** (n - len(dims) - 1)) <= (1024 if tier == 'thorough' else 432)]
        d = draw(st.sampled_from(choices))
        dims.append(d)
        prod *= d
    return dict(dims=dims, kind=draw(st.sampled_from(['complex', 'dm', 'product', 'int', 'c64', 'real'])), layout=draw(st.sampled_from(LAYOUTS)), prng=draw(st.integers(0, 2 ** 31)))


def run_pt(ctx, case):
    nq = _nq()
    dims, kind = case['dims'], case['kind']
    n = len(dims)
    D = int(np.prod(dims))
    r = ref.rng(case['prng'])
    layout = case.get('layout', 'C')
    ctx.note(klass=f'n={n}', desc=[dims, kind, layout], nontrivial=(n >= 3), labels=[f'n={n}', kind, 'unequal' if len(set(dims)) > 1 else 'equal', 'layout=' + layout])
    tolf = 1.0
    if kind == 'complex':
        rho = ref.rand_complex(r, D, D)
    elif kind == 'int':  # e.g. a permutation or adjacency matrix
        rho = r.integers(-3, 4, size=(D, D))
    elif kind == 'c64':
        rho = ref.rand_complex(r, D, D).astype(np.complex64)
        tolf = 1e6
    elif kind == 'real':
        rho = r.normal(size=(D, D))
    elif kind == 'dm':
        rho = ref.rand_dm(r, D, int(r.integers(1, min(D, 6) + 1)))
    else:
        parts = [ref.rand_dm(r, d) for d in dims]
        rho = ref.kron(*parts)
    rho = _with_layout(rho, layout)  # same values; the reference below never looks at strides (it indexes element-wise or via reshape of a C copy)
    rho_c = np.ascontiguousarray(rho)
    rho_ref = rho_c.astype(np.complex128)  # the references always work in double precision
    tr = np.trace(rho_ref)
    subsets = [s for k in range(1, n + 1) for s in itertools.combinations(range(n), k)]
    results = {}
    for j, keep in enumerate(subsets):
        form = j % 4
        if form == 0:
            arg = set(keep)
        elif form == 1:
            arg = list(keep)[::-1]  # order of a list must not matter (documented as a set)
        elif form == 2:
            arg = tuple(keep)
        else:
            arg = keep[0] if len(keep) == 1 else set(keep)
        inp = rho_c.reshape(dims + dims) if (j % 2 == 0) else rho
        inp_before = inp.copy()
        dim_arg = [tuple(dims), list(dims), np.array(dims), np.array(dims[::-1])[::-1]][(j // 2) % 4]  # tuple / list / array / negative-stride view
        if j % 5 == 4:
            arg = np.array(sorted(keep)[::-1])[::-1] if j % 2 else np.array(keep)
        out = nq.utils.partial_trace(inp, dim_arg, arg)
        ctx.close(inp, inp_before, 0, 'partial_trace does not modify its input')
        K = int(np.prod([dims[i] for i in keep]))
        ctx.require(out.shape == (K, K), 'partial trace shape', f'{dims} keep={keep}: {out.shape}')
        want = ref.partial_trace_fast(rho_ref, dims, keep)
        if D * K <= 4096:
            want2 = ref.partial_trace(rho_ref, dims, keep)
            if np.abs(want - want2).max() > 1e-10 * max(1, np.abs(rho).max()):
                from ..core import HarnessError
                raise HarnessError('reference partial traces disagree')
        ctx.close(out, want, 1e-10 * tolf, 'partial trace = explicit contraction', max(1.0, float(np.abs(rho).max())) * D)
        ctx.close(np.trace(out), tr, 1e-10 * tolf, 'trace preserved', max(1.0, abs(tr)) * D)
        results[keep] = out
        ctx.tick()
        non_contig = any(b - a > 1 for a, b in zip(keep, keep[1:]))
        if non_contig:
            ctx.label('non-contiguous keep')
        if kind in ('dm', 'product'):
            ctx.require(ref.min_eig(out) > -1e-10, 'reduced state PSD')
        if kind == 'product':
            ctx.close(out, ref.kron(*[parts[i] for i in keep]), 1e-10, 'product state reduces to the product of kept factors')
    # results handed out earlier are not overwritten by a later call with the same dims / keep-set / dtype (another operator)
    other = rho_c[::-1, ::-1].copy() * 1
    for keep in subsets[::3]:
        r1 = nq.utils.partial_trace(rho_c, tuple(dims), set(keep))
        r1c = np.array(r1, copy=True)
        nq.utils.partial_trace(other, tuple(dims), set(keep))
        ctx.close(r1, r1c, 0, 'a partial trace returned earlier is not overwritten by a later call')
    # two steps = one step
    for keep2 in subsets:
        if len(keep2) < 2:
            continue
        sub_dims = [dims[i] for i in keep2]
        for k1 in range(1, len(keep2)):
            keep1 = keep2[::2][:k1] if k1 <= len(keep2[::2]) else keep2[:k1]
            pos = [keep2.index(i) for i in keep1]
            two = nq.utils.partial_trace(results[keep2], tuple(sub_dims), set(pos))
            ctx.close(two, results[tuple(keep1)], 1e-10 * tolf, 'tracing in two steps = one step', max(1.0, float(np.abs(rho).max())) * D)
            break


# --------------------------------------------------------------------------------------------- Dicke basis
def run_dicke_basis(ctx, case):
    nq = _nq()
    k, d = case['k'], case['d']
    ctx.note(klass='dicke_basis', desc=[k, d], nontrivial=(k >= 2 and d >= 3))
    klist = nq.dicke.get_dicke_klist(k, d)
    cnt = math.comb(k + d - 1, d - 1)
    ctx.require(len(klist) == cnt and nq.dicke.get_dicke_number(k, d) == cnt, 'number of Dicke states = C(k+d-1,d-1)', f'{len(klist)} vs {cnt}')
    ctx.require(set(tuple(int(v) for v in x) for x in klist) == set(ref.compositions(k, d)) and len(set(map(tuple, klist))) == cnt,
                'klist = all occupation tuples once')
    FRESH = 'a second call is not affected by editing the array returned by the first'
    ctx.fresh(lambda: nq.dicke.get_dicke_basis(k, d), FRESH + ' (get_dicke_basis)')
    for x in klist[:3]:
        ctx.fresh(lambda: nq.dicke.Dicke(*x), FRESH + ' (Dicke)')
    B = nq.dicke.get_dicke_basis(k, d)
    ctx.require(B.shape == (cnt, d ** k), 'basis shape', f'{B.shape}')
    want = np.stack([ref.dicke_vector(x, d) for x in klist])
    ctx.close(B, want, 1e-12, 'Dicke vector = normalised sum over distinct arrangements (documented klist order)')
    ctx.close(B @ B.conj().T, np.eye(cnt), 1e-12, 'orthonormal')
    T = B.reshape([cnt] + [d] * k)
    for a in range(k):
        for b in range(a + 1, k):
            perm = list(range(k + 1))
            perm[a + 1], perm[b + 1] = perm[b + 1], perm[a + 1]
            ctx.close(T.transpose(perm), T, 1e-12, 'invariant under every transposition of qudits')
    for x, row in zip(klist, B):
        v = nq.dicke.Dicke(*x)
        ctx.close(v, row, 1e-12, 'Dicke(*klist) = basis row')
        ctx.tick()
    if d ** k <= 256:
        sym = np.zeros((d ** k, d ** k))
        for p in itertools.permutations(range(k)):
            P = np.eye(d ** k).reshape([d] * k + [d ** k]).transpose(list(p) + [k]).reshape(d ** k, d ** k)
            sym += P
        sym /= math.factorial(k)
        ctx.close(B.T @ B, sym, 1e-12, 'sum |D><D| = symmetriser')
        ctx.label('symmetriser')


def cases_dicke_basis(tier):
    cap = 1024 if tier == 'quick' else 4096
    return [dict(k=k, d=d) for k in range(1, 7) for d in range(2, 5) if d ** k <= cap]


# --------------------------------------------------------------------------------------------- fast reduction
@st.composite
def _strat_abk(draw, tier='quick'):
    cap = 1024 if tier == 'quick' else 4096
    dA = draw(st.integers(1, 4))
    dB = draw(st.integers(2, 4))
    ks = [k for k in range(1, 6) if dA * dB ** k <= cap]
    k = draw(st.sampled_from(ks))
    return dict(dA=dA, dB=dB, k=k, backend=draw(st.sampled_from(['numpy', 'torch'])), kind=draw(st.sampled_from(['complex', 'real', 'single'])),
                norm=draw(st.sampled_from([1.0, 1.0, 0.5, 3.0])), prng=draw(st.integers(0, 2 ** 31)))


def _explicit_reduce(psi, dA, dB, k, klist):
    basis = np.stack([ref.dicke_vector(x, dB) for x in klist])  # (#, dB^k)
    Psi = (psi @ basis).reshape(-1)  # A (x) B^k
    rho = np.outer(Psi, Psi.conj())
    if k == 1:
        return rho
    return ref.partial_trace_fast(rho, [dA, dB, dB ** (k - 1)], [0, 1])


def run_abk(ctx, case):
    import torch
    nq = _nq()
    dA, dB, k, backend, kind = case['dA'], case['dB'], case['k'], case['backend'], case['kind']
    ctx.note(klass=backend, desc=[dA, dB, k, backend, kind], nontrivial=(k >= 2 and dB >= 3), labels=[backend, f'k={k}', f'dB={dB}'])
    r = ref.rng(case['prng'])
    klist = nq.dicke.get_dicke_klist(k, dB)
    nd = len(klist)
    if kind == 'complex':
        psi = ref.rand_complex(r, dA, nd)
    elif kind == 'real':
        psi = r.normal(size=(dA, nd)) + 0j
    else:
        psi = np.zeros((dA, nd), dtype=np.complex128)
        psi[int(r.integers(0, dA)), int(r.integers(0, nd))] = 1
        psi[int(r.integers(0, dA)), int(r.integers(0, nd))] += 1j
    norm = case.get('norm', 1.0)  # the reduction is the quadratic map psi -> Tr_{k-1}|psi><psi| for EVERY vector, not only unit vectors
    psi = psi / np.linalg.norm(psi) * norm
    psi_before = psi.copy()
    if norm != 1.0:
        ctx.label('non-unit norm')
    Bij = nq.dicke.get_partial_trace_ABk_to_AB_index(k, dB)
    ctx.require(len(Bij) == dB * dB, 'index list has dimB^2 entries')
    if backend == 'torch':
        # weights either as complex128 tensors (as PureBosonicExt stores them) or in their natural real dtype (torch.tensor(np_array))
        wdt = torch.complex128 if case['prng'] % 2 else torch.float64
        tt = [torch.int64, torch.int64, wdt]
        ctx.label('torch weights ' + ('complex128' if case['prng'] % 2 else 'float64'))
        Bt = [[torch.tensor(np.asarray(y0), dtype=y1) for y0, y1 in zip(x, tt)] for x in Bij]
        out = nq.dicke.partial_trace_ABk_to_AB(torch.tensor(psi), Bt)
    else:
        out = nq.dicke.partial_trace_ABk_to_AB(psi, Bij)
    want = _explicit_reduce(psi, dA, dB, k, klist)
    ctx.require(tuple(out.shape) == (dA * dB, dA * dB), 'reduced matrix shape')
    ctx.close(psi, psi_before, 0, 'fast reduction does not modify the state vector')
    ctx.close(out, want, 1e-12, 'fast reduction = embed with the Dicke basis and trace k-1 copies', norm ** 2)
    ctx.close(np.trace(np.asarray(out)), norm ** 2, 1e-12, 'trace of the reduction = squared norm of the vector (unit trace for states)', norm ** 2)
    # tensor form
    Brsab = nq.dicke.get_partial_trace_ABk_to_AB_index(k, dB, return_tensor=True)
    basis = np.stack([ref.dicke_vector(x, dB) for x in klist]).reshape(nd, dB, -1)
    wantB = np.einsum('arx,bsx->rsab', basis, basis.conj())
    ctx.close(Brsab, wantB, 1e-12, 'B_rsab = Tr_{k-1} <r|D_a><D_b|s>')
    if dB == 2 and k > 1:
        a00, a01, a11 = nq.dicke.get_qubit_dicke_partial_trace(k)
        ctx.close(np.diag(a00), wantB[0, 0], 1e-12, 'qubit Dicke a00')
        ctx.close(np.diag(a11), wantB[1, 1], 1e-12, 'qubit Dicke a11')
        ctx.close(np.diag(a01, -1), wantB[0, 1], 1e-12, 'qubit Dicke a01')
        ctx.close(np.diag(a01, 1), wantB[1, 0], 1e-12, 'qubit Dicke a10')
        ctx.label('qubit')


@st.composite
def _strat_pureb(draw, tier='quick'):
    dA = draw(st.integers(2, 3))
    dB = draw(st.integers(2, 3))
    k = draw(st.integers(1, 5 if dB == 2 else 4))
    return dict(dA=dA, dB=dB, k=k, scale=draw(st.sampled_from([0.1, 1.0, 10.0])), prng=draw(st.integers(0, 2 ** 31)))


def run_pureb(ctx, case):
    import torch
    nq = _nq()
    dA, dB, k = case['dA'], case['dB'], case['k']
    ctx.note(klass='pureb', desc=[dA, dB, k, case['scale']], nontrivial=(k >= 2), labels=[f'k={k}'])
    r = ref.rng(case['prng'])
    model = nq.entangle.PureBosonicExt(dA, dB, k)
    with torch.no_grad():
        model.manifold.theta.copy_(torch.tensor(r.normal(size=tuple(model.manifold.theta.shape)) * case['scale'], dtype=model.manifold.theta.dtype))
    op = ref.rand_hermitian(r, dA * dB)
    model.set_expectation_op(op)
    loss = model()
    psi = model.manifold().detach().numpy().reshape(dA, -1)
    klist = nq.dicke.get_dicke_klist(k, dB)
    want = _explicit_reduce(psi, dA, dB, k, klist)
    ctx.close(model.dm_torch, want, 1e-12, 'PureBosonicExt.dm_torch = explicit reduction of its own state vector')
    ctx.close(float(loss), float(np.trace(want @ op).real), 1e-10, 'expectation loss = Tr(rho O)', max(1.0, np.abs(op).max()))


SUBCHECKS = [
    SubCheck('partial_trace', run_pt, strategy=_strat_pt, examples=(150, 600), shards=(3, 16), floors={'n=3': 0.1, 'layout=F': 0.1, 'layout=strided': 0.1}),
    SubCheck('dicke_basis', run_dicke_basis, cases=cases_dicke_basis, shards=(4, 8)),
    SubCheck('abk_reduce', run_abk, strategy=_strat_abk, examples=(150, 600), shards=(3, 16), floors={'torch': 0.3, 'non-unit norm': 0.3}),
    SubCheck('pureb_dm', run_pureb, strategy=_strat_pureb, examples=(80, 400), shards=(1, 8)),
]
