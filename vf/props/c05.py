"""C05 - entanglement criteria never flag a separable state."""
import math
import numpy as np
from hypothesis import strategies as st

from ..core import SubCheck
from .. import ref

PROPERTY = 'C05'
RULE = ('separable states built by construction: dims in {(2,2),(2,3),(3,2),(3,3),(2,4),(4,2),(2,2,2),(2,3,2),(3,2,2),(2,2,3),(2,2,2,2)}, 1..2D product terms, product vectors from '
        '{complex Haar, real, computational basis, repeated, nearly parallel}, weights from {Dirichlet, equal, one dominant with 1e-12 tails}; plus the analytically separable ranges '
        'of Werner / isotropic / Horodecki end points / Antoine q in [0,0.5] / maximally mixed / numqi.random.rand_separable_dm; each generated case is pushed through EVERY criterion, '
        'and criteria are called in generated sequences with changing dims (they memoise per-dimension data). Oracle: the verdict must be "passes"; closed-form two-qubit measures '
        'finite and zero up to the rounding of the formula. SDP criterion is_ABk_symmetric_ext: k=1..3 over the flag lattice (quick: (2,2) all flags, (2,3)/(3,3) k<=2). '
        'Non-trivial = generic mixture or boundary state (rank < D) or >=3 parties; distinct = (criterion family, dims, terms bucket, vector kind, weight kind).'
        ' States are also handed over in other memory layouts (Fortran, strided, read-only), in real and integer dtypes, and the dimension list as a negative-stride integer array.')
RULE += ' A fifth of the planted cases run after a call with another tolerance (eps=1e-3 on the maximally mixed state of the same size): verdicts must not depend on the call history.'
ASSUMPTIONS = ['zero means zero up to the rounding of the formula: concurrence <= 1e-7 (square root of eigenvalue differences), eof <= 1e-10, gme <= 1e-12, negativity <= 1e-9',
               'SDP verdicts are taken as returned (solver tolerance); a cvxpy SolverError inside is_ABk_symmetric_ext is reported by the library as False and therefore judged',
               'the judged calls use the default eps (the preceding history call uses eps=1e-3 on the maximally mixed state, which every criterion must accept)']

DIMS = [[2, 2], [2, 3], [3, 2], [3, 3], [2, 4], [4, 2], [2, 2, 2], [2, 3, 2], [3, 2, 2], [2, 2, 3], [2, 2, 2, 2]]


def _nq():
    import numqi
    return numqi


@st.composite
def _one_state(draw):
    fam = draw(st.sampled_from(['mixture'] * 6 + ['werner', 'isotropic', 'horodecki', 'antoine', 'mixed', 'numqi_random']))
    dims = draw(st.sampled_from(DIMS))
    D = int(np.prod(dims))
    return dict(fam=fam, dims=dims, nterms=draw(st.one_of(st.integers(1, 3), st.integers(1, 2 * D))), vec=draw(st.sampled_from(ref.VEC_KINDS)),
                weight=draw(st.sampled_from(ref.WEIGHT_KINDS)), u=draw(st.one_of(st.sampled_from([0.0, 1.0]), st.floats(0, 1))), prng=draw(st.integers(0, 2 ** 31)))


@st.composite
def _strat(draw, tier='quick'):
    return dict(states=[draw(_one_state()) for _ in range(draw(st.integers(1, 3)))])


def build_state(c):
    nq = _nq()
    r = ref.rng(c['prng'])
    fam, dims = c['fam'], list(c['dims'])
    if fam == 'mixture':
        rho, _, _ = ref.separable_state(r, dims, c['nterms'], c['vec'], c['weight'])
        return rho, dims
    d = dims[0] if dims[0] == dims[-1] and len(dims) == 2 else 2 + c['prng'] % 3
    if fam == 'werner':
        return nq.state.Werner(d, -1 + c['u'] * (1 / d + 1)), [d, d]
    if fam == 'isotropic':
        lo = -1 / (d * d - 1)
        return nq.state.Isotropic(d, lo + c['u'] * (1 / (d + 1) - lo)), [d, d]
    if fam == 'horodecki':
        e = 0.0 if c['u'] < 0.5 else 1.0
        return (nq.state.get_bes3x3_Horodecki1997(e), [3, 3]) if c['prng'] % 2 else (nq.state.get_bes2x4_Horodecki1997(e), [2, 4])
    if fam == 'antoine':
        return nq.state.get_2qutrit_Antoine2022(0.5 * c['u']), [3, 3]
    if fam == 'mixed':
        D = int(np.prod(dims))
        return np.eye(D) / D, dims
    if len(dims) != 2:
        dims = dims[:2]
    return nq.random.rand_separable_dm(dims[0], dims[1], k=max(1, c['nterms'] % 6), seed=c['prng'], pure_term=bool(c['prng'] % 2)), dims


def run_closed(ctx, case):
    nq = _nq()
    E = nq.entangle
    sts = case['states']
    first = sts[0]
    ctx.note(klass=first['fam'], desc=[[s['fam'], s['dims'], min(s['nterms'], 4), s['vec'], s['weight']] for s in sts],
             nontrivial=any(s['fam'] == 'mixture' for s in sts), labels=[first['fam'], f'parties={len(first["dims"])}', first['vec'], first['weight'], f'seq={len(sts)}'])
    for c in sts:
        rho, dims = build_state(c)
        D = rho.shape[0]
        dimt = tuple(dims)
        rank = int((np.linalg.eigvalsh(rho) > 1e-10).sum())
        if c['fam'] == 'mixture' and c['vec'] == 'basis' and c['prng'] % 2 == 0 and np.allclose(rho, np.round(rho.real)):
            rho = np.round(rho.real).astype([np.int64, np.int32, np.uint8][c['prng'] % 3])  # a basis product state written down with integers
            ctx.label('integer dtype basis state')
        if np.iscomplexobj(rho) and c['prng'] % 3 == 1 and float(np.abs(rho.imag).max()) == 0.0:
            rho = np.ascontiguousarray(rho.real)  # a real state held in a real dtype (real local vectors, Werner, diagonal states ...)
        if not np.iscomplexobj(rho):
            ctx.label('real dtype state')
        ctx.label('boundary state' if rank < D else 'full rank')
        layout = ref.LAYOUTS[(c['prng'] // 7) % len(ref.LAYOUTS)]
        rho = ref.with_layout(rho, layout)  # same values; the verdict must not depend on strides or writability
        ctx.label('layout=' + layout)
        tag = f'{c["fam"]} dims={dims} layout={layout}'
        if c['prng'] % 5 == 0:
            # a call history: the same criteria were asked before with a non-default tolerance (on the maximally mixed state of the same size)
            mm = np.eye(D) / D
            ctx.require(bool(E.is_ppt(mm, tuple(dims), eps=1e-3)) and bool(E.check_reduction_witness(mm, tuple(dims), eps=1e-3)), 'criteria accept the maximally mixed state (eps=1e-3)', tag)
            ctx.label('after calls with another eps')
        if c['prng'] % 4 == 2:
            dimt = np.array(dims[::-1])[::-1]  # the dimensions as an integer array that is a negative-stride view (logical content = dims)
            ctx.label('dims as reversed-view array')
        rho_before = rho.copy()
        ctx.require(E.is_ppt(rho, dimt) is True or E.is_ppt(rho, dimt) == True, 'is_ppt accepts a separable state', tag)  # noqa: E712
        ctx.require(bool(E.is_generalized_ppt(rho, dimt)), 'is_generalized_ppt accepts a separable state', tag)
        tg, info = E.is_generalized_ppt(rho, dimt, return_info=True)
        ctx.require(bool(tg) and max(x[2] for x in info) <= 1 + 1e-9, 'generalized PPT: every realignment nuclear norm <= 1', f'{tag}: {max(x[2] for x in info)}')
        ctx.require(bool(E.check_reduction_witness(rho, dimt)), 'check_reduction_witness accepts a separable state', tag)
        if len(dims) == 2:
            if dims[0] == dims[1]:
                ctx.require(bool(E.check_swap_witness(rho)), 'check_swap_witness accepts a separable state', tag)
            neg = E.get_negativity(rho, dimt)
            ctx.require(math.isfinite(float(neg)) and abs(float(neg)) <= 1e-9, 'get_negativity is zero on a separable state', f'{tag}: {neg}')
            nr = nq.gellmann.dm_to_gellmann_norm(rho)
            if nr > 1e-6:  # the maximally mixed state has no direction
                bl, bu = E.get_ppt_boundary(rho, dimt)
                ctx.require(bu >= nr * (1 - 1e-9), 'a separable state lies inside its own PPT boundary', f'{tag}: beta_ppt={bu} norm={nr}')
        if dims == [2, 2]:
            cc = float(E.get_concurrence_2qubit(rho))
            ee = float(E.get_eof_2qubit(rho))
            gg = float(E.get_gme_2qubit(rho))
            ctx.require(math.isfinite(cc) and 0 <= cc <= 1e-7, 'concurrence is finite and zero on a separable state', f'{cc}')
            ctx.require(math.isfinite(ee) and abs(ee) <= 1e-10, 'entanglement of formation is finite and zero on a separable state', f'{ee}')
            ctx.require(math.isfinite(gg) and abs(gg) <= 1e-12, 'geometric measure is finite and zero on a separable state', f'{gg}')
            ctx.label('two-qubit')
        ctx.close(rho, rho_before, 0, 'criteria do not modify the state they are given')
        ctx.tick()


# --------------------------------------------------------------------------------------------- symmetric extension SDP
@st.composite
def _strat_sdp(draw, tier='quick'):
    dims = draw(st.sampled_from([[2, 2], [2, 2], [2, 3], [3, 2], [3, 3]] if tier == 'quick' else [[2, 2], [2, 3], [3, 2], [3, 3]]))
    kmax = 3 if dims == [2, 2] else (2 if tier == 'quick' else 3)
    c = draw(_one_state())
    c['dims'] = dims
    if c['fam'] in ('horodecki', 'antoine', 'numqi_random'):
        c['fam'] = 'mixture'
    calls = [dict(k=draw(st.integers(1, kmax)), ppt=draw(st.booleans()), boson=draw(st.booleans())) for _ in range(draw(st.integers(1, 2)))]
    return dict(state=c, calls=calls, batch=draw(st.booleans()))


def run_sdp(ctx, case):
    nq = _nq()
    c = case['state']
    rho, dims = build_state(c)
    if list(dims) != list(c['dims']):
        c = dict(c, fam='mixture')
        rho, dims = build_state(c)
    calls = case['calls']
    boson_then_plain = any(a['boson'] and not b['boson'] and a['k'] == b['k'] for a, b in zip(calls, calls[1:]))
    ctx.note(klass='symext', desc=[c['fam'], dims, min(c['nterms'], 4), c['vec'], [[x['k'], x['ppt'], x['boson']] for x in calls], case['batch']],
             nontrivial=True, labels=[f'dims={dims}', 'boson->plain' if boson_then_plain else 'other order'] + [f'k={x["k"]}' for x in calls])
    for call in calls:
        arg = np.stack([rho, np.eye(rho.shape[0]) / rho.shape[0]]) if case['batch'] else rho
        out = nq.entangle.is_ABk_symmetric_ext(arg, tuple(dims), call['k'], use_ppt=call['ppt'], use_boson=call['boson'])
        ok = bool(np.all(out))
        ctx.require(ok, 'is_ABk_symmetric_ext accepts a separable state', f'{c["fam"]} dims={dims} k={call["k"]} ppt={call["ppt"]} boson={call["boson"]} batch={case["batch"]} -> {out}')
        ctx.tick()


SUBCHECKS = [
    SubCheck('closed_form', run_closed, strategy=_strat, examples=(1500, 10000), shards=(4, 16), floors={'two-qubit': 0.05, 'boundary state': 0.3}),
    SubCheck('symmetric_extension', run_sdp, strategy=_strat_sdp, examples=(12, 120), shards=(8, 16), shrink=False),
]
