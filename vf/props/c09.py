"""C09 - Sp(2n,F2) indexing is a bijection onto the symplectic group."""
import itertools
import numpy as np
from hypothesis import strategies as st

from ..core import SubCheck
from .. import ref

PROPERTY = 'C09'
RULE = ('exhaustive: every mixed-radix tuple for n=1,2 (n=3 in thorough, 1,451,520 tuples in blocks of 2016), all ordered pairs of non-zero '
        'vectors for n<=3 (n=4 thorough); hypothesis: tuples up to n=10 with digits biased to 0 and base-1, rand_SpF2 for every return_kind. '
        'Oracle: M Lambda M^T = Lambda over F2, round trip to_int_tuple(from_int_tuple(t)) = t (=> injective), #tuples = independent group '
        'order formula (=> bijective), brute-force enumeration of Sp(2,F2), Sp(4,F2) by the defining equation. Every tuple is non-trivial; '
        'distinct = tuple blocks / vector v0 / (n, digit-extremes signature).'
        ' Matrices are also handed over in other memory layouts; transvection is applied to 2-4 dimensional stacks and with lists of 3-8 transvections (repeats included); rand_SpF2 over enumerated seeds must produce every digit value (n=1: all six elements); second-call clause for from_int_tuple / inverse.'
        ' get_number(n) without kind; the whole group kept in a list; one transvection on 2-D / 3-D stacks.')
RULE += ' get_number kinds are also spelled in upper case / capitalised.'
ASSUMPTIONS = ['|Sp(2n,F2)| = prod_i (4^i-1) 2^(2i-1) (textbook formula, computed in vf/ref.py)',
               'injectivity is concluded from the exact round trip, surjectivity from counting (and brute force for n<=2)']


def _sp():
    import numqi.group.spf2 as spf2
    return spf2


def _is_symplectic(M):
    n = M.shape[0] // 2
    L = ref.symplectic_form(n).astype(np.int64)
    M = M.astype(np.int64)
    return np.array_equal((M @ L @ M.T) % 2, L)


def _check_tuple(ctx, t):
    spf2 = _sp()
    n = len(t) // 2
    M = spf2.from_int_tuple(tuple(t))
    ctx.require(isinstance(M, np.ndarray) and M.shape == (2 * n, 2 * n) and M.dtype == np.uint8 and M.max() <= 1, 'image is a uint8 0/1 matrix',
                f'{t}')
    ctx.require(_is_symplectic(M), 'image symplectic', f'{t}')
    M_before = M.copy()
    back = spf2.to_int_tuple(M)
    ctx.require(np.array_equal(M, M_before), 'to_int_tuple does not modify the matrix', f'{t}')
    ctx.require(tuple(int(x) for x in back) == tuple(t), 'round trip', f'{t} -> {back}')
    Mi = spf2.inverse(M)
    # the same matrix in other memory layouts (M.T of a row-major matrix is column-major): inverse and the inverse map must not depend on it
    code = sum(int(x) for x in t) + n
    lay = ref.LAYOUTS[code % len(ref.LAYOUTS)]
    Ml = ref.with_layout(M, lay)
    ctx.require(np.array_equal(spf2.inverse(Ml), Mi), 'inverse does not depend on the memory layout of its argument', f'{t} layout={lay}')
    ctx.require(tuple(int(x) for x in spf2.to_int_tuple(Ml)) == tuple(t), 'to_int_tuple does not depend on the memory layout of its argument', f'{t} layout={lay}')
    ctx.require(np.array_equal(spf2.inverse(np.ascontiguousarray(M.T).T), Mi) and np.array_equal(spf2.inverse(M.T), spf2.inverse(np.ascontiguousarray(M.T))),
                'inverse of a transposed view = inverse of its contiguous copy', f'{t}')
    I = np.eye(2 * n, dtype=np.int64)
    ctx.require(np.array_equal((Mi.astype(np.int64) @ M.astype(np.int64)) % 2, I), 'inverse left', f'{t}')
    ctx.require(np.array_equal((M.astype(np.int64) @ Mi.astype(np.int64)) % 2, I), 'inverse right', f'{t}')
    return M


def run_exh_tuples(ctx, case):
    spf2 = _sp()
    n, head = case['n'], case['head']
    ctx.note(klass=f'n={n}', desc=['block', n, head], nontrivial=True)
    base = spf2.get_number(n, 'base')
    ctx.require(tuple(base) == tuple(y for i in range(1, n + 1) for y in (4 ** i - 1, 2 ** (2 * i - 1))), 'get_number base')
    ctx.require(spf2.get_number(n, 'order') == ref.sp_order(n), 'get_number order')
    ctx.require(tuple(spf2.get_number(n, 'coset')) == tuple((4 ** i - 1) * 2 ** (2 * i - 1) for i in range(1, n + 1)), 'get_number coset')
    for a in range(base[-2]):
        for b in range(base[-1]):
            _check_tuple(ctx, list(head) + [a, b])
            ctx.tick()


def cases_exh_tuples(tier):
    out = [dict(n=1, head=[])]
    out += [dict(n=2, head=[a, b]) for a in range(3) for b in range(2)]
    if tier == 'thorough':
        out += [dict(n=3, head=[a, b, c, d]) for a in range(3) for b in range(2) for c in range(15) for d in range(8)]
    else:
        # a deterministic slice of n=3 so that the three-level recursion is touched on every change
        out += [dict(n=3, head=[a, b, c, d]) for (a, b, c, d) in [(0, 0, 0, 0), (2, 1, 14, 7), (1, 0, 7, 3), (2, 0, 3, 5)]]
    return out


def run_set_onto(ctx, case):
    spf2 = _sp()
    n = case['n']
    ctx.note(klass=f'n={n}', desc=['onto', n], nontrivial=True)
    base = spf2.get_number(n, 'base')
    imgs = set()
    for t in itertools.product(*[range(x) for x in base]):
        imgs.add(spf2.from_int_tuple(t).tobytes())
    ctx.require(len(imgs) == ref.sp_order(n), 'images distinct and as many as the group order', f'{len(imgs)} vs {ref.sp_order(n)}')
    # a caller that keeps the matrices (a list of the whole group): results handed out earlier are not overwritten by later calls
    tuples = list(itertools.product(*[range(x) for x in base]))
    kept = [spf2.from_int_tuple(t) for t in tuples]
    ctx.require(len({m.tobytes() for m in kept}) == ref.sp_order(n), 'the list [from_int_tuple(t) for t in all tuples] holds the whole group (no shared buffer)', f'{len({m.tobytes() for m in kept})} distinct')
    ctx.require(all(tuple(int(x) for x in spf2.to_int_tuple(m)) == tuple(t) for m, t in zip(kept[::7], tuples[::7])), 'kept matrices still map back to their tuples')
    kept_inv = [spf2.inverse(m) for m in kept[:50]]
    ctx.require(all(np.array_equal((a.astype(np.int64) @ b.astype(np.int64)) % 2, np.eye(2 * n, dtype=np.int64)) for a, b in zip(kept[:50], kept_inv)), 'kept inverses stay inverses')
    # a caller that works on the returned matrices in place (here: multiplies each by a fixed group element) and enumerates again
    g = spf2.from_int_tuple(tuple(x - 1 for x in base)).astype(np.int64)
    for t in itertools.product(*[range(x) for x in base]):
        m = spf2.from_int_tuple(t)
        if m.flags.writeable:
            m[:] = (m.astype(np.int64) @ g) % 2
    imgs2 = set(spf2.from_int_tuple(t).tobytes() for t in itertools.product(*[range(x) for x in base]))
    ctx.require(imgs2 == imgs, 'a second enumeration gives the same images after the caller edited the first results in place', f'{len(imgs2)} vs {len(imgs)}')
    # brute force: all binary matrices satisfying the defining equation
    L = ref.symplectic_form(n).astype(np.int64)
    brute = set()
    N = 2 * n
    for bits in range(2 ** (N * N)):
        M = np.array([(bits >> i) & 1 for i in range(N * N)], dtype=np.int64).reshape(N, N)
        if np.array_equal((M @ L @ M.T) % 2, L):
            brute.add(M.astype(np.uint8).tobytes())
    ctx.require(brute == imgs, 'image set = {M: M L M^T = L}', f'{len(brute)} vs {len(imgs)}')


def cases_set_onto(tier):
    return [dict(n=1), dict(n=2)]


def run_transvection(ctx, case):
    spf2 = _sp()
    n, i0 = case['n'], case['v0']
    v0 = np.array([(i0 >> j) & 1 for j in range(2 * n)], dtype=np.uint8)
    ctx.note(klass=f'n={n}', desc=['transv', n, i0], nontrivial=True)
    allv = np.array([[(i >> j) & 1 for j in range(2 * n)] for i in range(4 ** n)], dtype=np.uint8)  # every vector, the zero vector included
    for i1 in range(1, 4 ** n):
        v1 = np.array([(i1 >> j) & 1 for j in range(2 * n)], dtype=np.uint8)
        ip = int((np.dot(v0[:n].astype(int), v1[n:]) + np.dot(v0[n:].astype(int), v1[:n])) % 2)
        ctx.fresh(lambda: np.asarray(spf2.find_transvection(v0.copy(), v1.copy())), 'find_transvection: a second call is not affected by editing the array returned by the first')
        h = spf2.find_transvection(v0.copy(), v1.copy())
        ctx.require(np.shape(h) == (2, 2 * n), 'find_transvection shape')
        out = spf2.transvection(v0.copy(), *h)
        ctx.require(np.array_equal(out % 2, v1), 'transvection maps v0 to v1', f'v0={v0.tolist()} v1={v1.tolist()} h={np.asarray(h).tolist()} got {out.tolist()}')
        # reference transvection: x + <x,h> h
        x = v0.astype(int)
        for hh in np.asarray(h).astype(int):
            s = (np.dot(x[:n], hh[n:]) + np.dot(x[n:], hh[:n])) % 2
            x = (x + s * hh) % 2
        ctx.require(np.array_equal(x, v1), 'returned vectors are transvections mapping v0 to v1 (reference formula)')
        # batched argument (documented: ndim>=1): every row is transformed like a single vector
        X = allv.astype(np.int64)
        for hh in np.asarray(h).astype(np.int64):
            sX = (X[:, :n] @ hh[n:] + X[:, n:] @ hh[:n]) % 2
            X = (X + sX[:, None] * hh) % 2
        # longer lists of transvections in ONE call are applied one after the other, repeats included (a, b, a is not b when <a,b> = 1)
        i2 = 1 + (i0 * 7 + i1 * 3) % (4 ** n - 1)
        v2 = np.array([(i2 >> j) & 1 for j in range(2 * n)], dtype=np.uint8)
        h2 = spf2.find_transvection(v1.copy(), v2.copy())
        hh_all = [np.asarray(x, dtype=np.uint8) for x in h] + [np.asarray(x, dtype=np.uint8) for x in h2]
        chains = [hh_all, [hh_all[0], hh_all[2], hh_all[0]], [hh_all[1], hh_all[3], hh_all[1], hh_all[3]], hh_all + hh_all[::-1], [v1, v2, v1], [v0, v1, v0, v2]]
        for ch in chains:
            Xc = allv.astype(np.int64)
            for hh in ch:
                hh = hh.astype(np.int64)
                sX = (Xc[:, :n] @ hh[n:] + Xc[:, n:] @ hh[:n]) % 2
                Xc = (Xc + sX[:, None] * hh) % 2
            outc = spf2.transvection(allv.copy(), *[c.copy() for c in ch])
            ctx.require(np.array_equal(np.asarray(outc) % 2, Xc), 'a list of transvections in one call = the transvections applied one after the other', f'chain={[c.tolist() for c in ch]}')
        ctx.require(np.array_equal(spf2.transvection(v0.copy(), *hh_all) % 2, v2), 'chained find_transvection results map v0 -> v1 -> v2 in one call')
        # a single transvection on a batch (the list form with one element)
        for hh in np.asarray(h):
            hh64 = hh.astype(np.int64)
            X1 = allv.astype(np.int64)
            X1 = (X1 + ((X1[:, :n] @ hh64[n:] + X1[:, n:] @ hh64[:n]) % 2)[:, None] * hh64) % 2
            for shp in ((4 ** n, 2 * n), (2 ** n, 2 ** n, 2 * n)):
                o1 = spf2.transvection(allv.reshape(shp).copy(), hh.copy())
                ctx.require(np.shape(o1) == shp and np.array_equal(np.asarray(o1).reshape(-1, 2 * n) % 2, X1), 'one transvection on a batch of vectors = row by row', f'shape={shp} h={hh.tolist()}')
        for shp in ((4 ** n, 2 * n), (2 ** n, 2 ** n, 2 * n), (1, 4 ** n, 2 * n), (2, 2 ** n, 2 ** (n - 1), 2 * n)):
            arg = allv.reshape(shp).copy()
            outb = spf2.transvection(arg, *h)
            ctx.require(np.shape(outb) == shp and np.array_equal(np.asarray(outb).reshape(-1, 2 * n) % 2, X),
                        'transvection on a batch of vectors = row by row', f'shape={shp} h={np.asarray(h).tolist()}')
            ctx.require(np.array_equal(arg, allv.reshape(shp)), 'transvection does not modify its argument')
        ctx.tick()
        ctx.label('orthogonal' if (ip == 0 and i0 != i1) else ('equal' if i0 == i1 else 'ip1'))


def cases_transvection(tier):
    ns = (1, 2, 3) if tier == 'quick' else (1, 2, 3, 4)
    return [dict(n=n, v0=i) for n in ns for i in range(1, 4 ** n)]


@st.composite
def _strat_tuple(draw, tier='quick'):
    n = draw(st.integers(1, 10 if tier == 'thorough' else 8))
    t = []
    for i in range(1, n + 1):
        for base in (4 ** i - 1, 2 ** (2 * i - 1)):
            t.append(draw(st.one_of(st.sampled_from([0, base - 1]), st.integers(0, base - 1))))
    return dict(t=t)


def run_rand_tuple(ctx, case):
    t = case['t']
    n = len(t) // 2
    base = [y for i in range(1, n + 1) for y in (4 ** i - 1, 2 ** (2 * i - 1))]
    sig = ''.join('0' if x == 0 else ('m' if x == b - 1 else '.') for x, b in zip(t, base))
    ctx.note(klass=f'n={n}', desc=['rand', n, sig], nontrivial=True, labels=[f'n={n}'])
    spf2 = _sp()
    ctx.require(tuple(spf2.get_number(n, 'base')) == tuple(base), 'get_number base')
    got_default = spf2.get_number(n)
    ctx.require(isinstance(got_default, (tuple, list)) and tuple(got_default) == tuple(base), 'get_number(n) without kind = the radix tuple (documented default)', f'{got_default!r}')
    ctx.require(tuple(spf2.get_number(n, kind='base')) == tuple(base), 'get_number(kind=base) as keyword')
    for kind_ in ('base', 'order', 'coset'):
        for form_ in (kind_.upper(), kind_.capitalize()):  # the kind is matched case-insensitively (str(kind).lower() in the library)
            a_, b_ = spf2.get_number(n, form_), spf2.get_number(n, kind_)
            ctx.require(type(a_) == type(b_) and a_ == b_, 'get_number: the kind is case-insensitive', f'n={n} {form_}: {a_!r} vs {b_!r}')
    ctx.require(spf2.get_number(n, 'order') == ref.sp_order(n), 'get_number order', f'n={n}')
    ctx.require(tuple(spf2.get_number(n, 'coset')) == tuple((4 ** i - 1) * 2 ** (2 * i - 1) for i in range(1, n + 1)), 'get_number coset')
    _check_tuple(ctx, t)
    ctx.fresh(lambda: spf2.from_int_tuple(tuple(t)), 'from_int_tuple: a second call is not affected by editing the matrix returned by the first')
    ctx.fresh(lambda: spf2.inverse(spf2.from_int_tuple(tuple(t))), 'inverse: a second call is not affected by editing the matrix returned by the first')


@st.composite
def _strat_randsp(draw, tier='quick'):
    return dict(n=draw(st.integers(1, 6)), kind=draw(st.sampled_from(['matrix', 'int_tuple', 'int_tuple-matrix'])), seed=draw(st.integers(0, 2 ** 31)))


def run_rand_spf2(ctx, case):
    import numqi
    spf2 = _sp()
    n, kind, seed = case['n'], case['kind'], case['seed']
    ctx.note(klass=f'kind={kind}', desc=['rand_SpF2', n, kind], nontrivial=True, labels=[kind])
    base = [y for i in range(1, n + 1) for y in (4 ** i - 1, 2 ** (2 * i - 1))]
    r = numqi.random.rand_SpF2(n, return_kind=kind, seed=seed)
    r2 = numqi.random.rand_SpF2(n, return_kind=kind, seed=seed)
    if kind == 'matrix':
        ctx.require(r.shape == (2 * n, 2 * n) and _is_symplectic(r), 'rand_SpF2 matrix symplectic')
        ctx.require(np.array_equal(r, r2), 'rand_SpF2 reproducible')
    elif kind == 'int_tuple':
        ctx.require(len(r) == 2 * n and all(0 <= int(x) < b for x, b in zip(r, base)), 'rand_SpF2 digits in range', f'{r} base {base}')
        ctx.require(tuple(r) == tuple(r2), 'rand_SpF2 reproducible')
        for x, b in zip(r, base):
            if int(x) == b - 1:
                ctx.label('digit=base-1')
    else:
        t, M = r
        ctx.require(len(t) == 2 * n and all(0 <= int(x) < b for x, b in zip(t, base)), 'rand_SpF2 digits in range', f'{t} base {base}')
        ctx.require(_is_symplectic(M), 'rand_SpF2 matrix symplectic')
        ctx.require(np.array_equal(M, spf2.from_int_tuple(tuple(t))), 'rand_SpF2 tuple and matrix consistent')
        ctx.require(tuple(int(x) for x in spf2.to_int_tuple(M)) == tuple(int(x) for x in t), 'rand_SpF2 round trip')


def run_rand_cover(ctx, case):
    import numqi
    import random as _random
    n, nseed = case['n'], case['nseed']

    ctx.note(klass=f'cover n={n}', desc=['cover', n], nontrivial=True)
    # one random.Random instance handed over again and again (documented seed type): the stream advances, so the draws differ and cover the group
    shared = _random.Random(case['n'] * 1000 + 7)
    draws = [tuple(int(x) for x in numqi.random.rand_SpF2(n, return_kind='int_tuple', seed=shared)) for _ in range(60)]
    ctx.require(len(set(draws)) >= (5 if n == 1 else 20), 'rand_SpF2 with one shared random.Random instance: successive draws advance the generator', f'{len(set(draws))} distinct of 60')
    base = [y for i in range(1, n + 1) for y in (4 ** i - 1, 2 ** (2 * i - 1))]
    seen = [set() for _ in base]
    mats = set()
    for seed in range(nseed):
        t, M = numqi.random.rand_SpF2(n, return_kind='int_tuple-matrix', seed=seed)
        for s_, x in zip(seen, t):
            s_.add(int(x))
        mats.add(np.asarray(M).tobytes())
        ctx.tick()
    # seeds are enumerated, so this is a deterministic statement about the sampler; a uniform sampler misses a digit value with probability < 1e-20 here
    for s_, b in zip(seen, base):
        ctx.require(s_ == set(range(b)), 'rand_SpF2 reaches every value 0..base-1 of every digit over the enumerated seeds', f'n={n} base={b} missing={sorted(set(range(b)) - s_)}')
    if n == 1:
        ctx.require(len(mats) == 6, 'rand_SpF2(1) produces all 6 elements of Sp(2,F2) over the enumerated seeds', f'{len(mats)}')


def cases_rand_cover(tier):
    return [dict(n=1, nseed=300), dict(n=2, nseed=1500), dict(n=3, nseed=6000 if tier == 'quick' else 20000)]


SUBCHECKS = [
    SubCheck('exh_tuples', run_exh_tuples, cases=cases_exh_tuples, shards=(4, 16),
             doc='all tuples n=1,2 (+ a fixed slice of n=3 in quick; all 1,451,520 of n=3 in thorough)'),
    SubCheck('set_onto', run_set_onto, cases=cases_set_onto, shards=(2, 2),
             doc='n=1,2: image set distinct, size = group order, equal to brute-force solution set of M L M^T = L'),
    SubCheck('transvection', run_transvection, cases=cases_transvection, shards=(4, 16),
             doc='all ordered pairs of non-zero vectors n<=3 (n=4 thorough)'),
    SubCheck('rand_tuple', run_rand_tuple, strategy=_strat_tuple, examples=(400, 3000)),
    SubCheck('rand_spf2', run_rand_spf2, strategy=_strat_randsp, examples=(300, 2000)),
    SubCheck('rand_cover', run_rand_cover, cases=cases_rand_cover, shards=(3, 3),
             doc='rand_SpF2 over enumerated seeds: every digit value of the mixed-radix tuple is produced (n=1: all 6 group elements)'),
]
