"""C20 - matrix-subspace decomposition is exact and rank certificates are sound."""
import math
import numpy as np
from hypothesis import strategies as st

from ..core import SubCheck
from .. import ref

PROPERTY = 'C20'
RULE = ('hypothesis: (i) generator lists of the seven structure classes R, C, R_T, C_T, C_H, R_cT, R_c, sizes 2..5, span dimension 1..ambient, 0..3 extra dependent generators '
        '(random mixing); (ii) bipartite subspaces with a PLANTED element of rank r-1 (r 2..4, sizes 2..5, subspace dimension 1..4), hidden by a random invertible change of basis '
        'and handed over as the orthonormal basis returned by (i), real and complex, hierarchy level 1..2 (3 thorough); (iii) tripartite subspaces with a planted product vector; '
        '(iv) real subspaces with a planted rank-one element for the real detector; (v) numerical range of complex non-normal / normal / Hermitian / real matrices of size 2..8. '
        'Oracle: Gram matrices (common norm, orthogonality), least-squares span tests in the appropriate real embedding, dimension count of the ambient structured space, structure '
        'of the outputs; soundness of certificates = a certificate must not be issued when a low-rank element was planted; support function lambda_max((e^{i t}A + h.c.)/2). '
        'Non-trivial = dependent generators or a structured class; planted cases with subspace dimension >= 2. Distinct = (class, m, n, span dim, extra) / (kind, dims, r, k, dim).'
        ' Generators and matrices also in other memory layouts; planted rank-one elements also inside subspaces of real symmetric matrices.'
        ' Non-square real subspaces also handed to the detector as they are.')
ASSUMPTIONS = ['certificates use absolute thresholds: the planted subspaces are handed over as orthonormal bases (unnormalised generators are outside the claim)',
               'completeness of the certificates is not claimed; the fraction of generic subspaces that are certified is recorded as a label only (non-vacuity)',
               'real antisymmetric matrix spaces are rejected by the code ("not implemented yet") and are outside the domain']

CLASSES = ['R', 'C', 'C_real_input', 'R_T', 'C_T', 'C_T_real_input', 'C_H', 'R_cT', 'R_c']


def _nq():
    import numqi
    return numqi


def ambient_dim(cls, m, n):
    return {'R': m * n, 'C': m * n, 'C_real_input': m * n, 'R_T': n * (n + 1) // 2, 'C_T': n * (n + 1) // 2, 'C_T_real_input': n * (n + 1) // 2, 'C_H': n * n,
            'R_cT': n * (n + 1), 'R_c': 2 * m * n}[cls]


def rand_element(r, cls, m, n):
    if cls in ('R', 'C_real_input'):
        return r.normal(size=(m, n))
    if cls in ('C', 'R_c'):
        return ref.rand_complex(r, m, n)
    if cls in ('R_T', 'C_T_real_input'):
        a = r.normal(size=(n, n))
        return a + a.T
    if cls in ('C_T', 'R_cT'):
        a = ref.rand_complex(r, n, n)
        return a + a.T
    a = ref.rand_complex(r, n, n)
    return a + a.conj().T


def real_embed(M):
    M = np.asarray(M)
    return np.block([[M.real, -M.imag], [M.imag, M.real]])


@st.composite
def _strat_dec(draw, tier='quick'):
    cls = draw(st.sampled_from(CLASSES))
    n = draw(st.integers(2, 5))
    m = n if cls in ('R_T', 'C_T', 'C_T_real_input', 'C_H', 'R_cT') else draw(st.integers(2, 5))
    amb = ambient_dim(cls, m, n)
    s = draw(st.one_of(st.sampled_from([1, amb]), st.integers(1, amb)))
    return dict(cls=cls, m=m, n=n, s=s, extra=draw(st.integers(0, 3)), prng=draw(st.integers(0, 2 ** 31)))


def run_dec(ctx, case):
    nq = _nq()
    cls, m, n, s, extra = case['cls'], case['m'], case['n'], case['s'], case['extra']
    field = 'complex' if cls in ('C', 'C_real_input', 'C_T', 'C_T_real_input') else 'real'
    want_char = {'C_real_input': 'C', 'C_T_real_input': 'C_T'}.get(cls, cls)
    ctx.note(klass=cls, desc=[cls, m, n, s, extra], nontrivial=(extra > 0 or cls not in ('R', 'C')), labels=[cls, 'dependent generators' if extra > 0 else 'independent', f's={"full" if s == ambient_dim(cls, m, n) else ("1" if s == 1 else "mid")}'])
    r = ref.rng(case['prng'])
    base = np.stack([rand_element(r, cls, m, n) for _ in range(s)])
    N0 = s + extra
    mixing_complex = field == 'complex' and cls in ('C', 'C_T')
    mix = ref.rand_complex(r, N0, s) if mixing_complex else r.normal(size=(N0, s))
    mix[:s, :s] += 2 * np.eye(s)  # keep the first s rows well conditioned so that the span dimension is exactly s
    gens = np.einsum('as,sij->aij', mix, base)
    if cls in ('C_T', 'C') and not np.iscomplexobj(gens):
        gens = gens.astype(np.complex128)
    if cls in ('R', 'C', 'R_c', 'C_real_input') and m == n and case['prng'] % 3 == 0:
        # a general family whose FIRST generator happens to be symmetric / Hermitian: the structure class is still the general one
        a0 = rand_element(r, {'R': 'R_T', 'C_real_input': 'R_T', 'C': 'C_T', 'R_c': 'C_H'}[cls], m, n)
        gens = gens.copy()
        gens[0] = a0
        ctx.label('first generator symmetric in a general family')
        if N0 < 2:
            gens = np.concatenate([gens, rand_element(r, cls, m, n)[None].astype(gens.dtype)], axis=0)
    # span dimension measured independently (real or complex rank of the flattened generators)
    flat = gens.reshape(len(gens), -1)
    if field == 'real' and np.iscomplexobj(flat):
        flat = np.concatenate([flat.real, flat.imag], axis=1)
    s = int(np.linalg.matrix_rank(flat, tol=1e-8 * max(1.0, np.abs(flat).max())))
    # a generic random family spans min(s, ambient) dimensions; s never exceeds the ambient dimension by construction
    layout = ref.LAYOUTS[(case['prng'] // 7) % len(ref.LAYOUTS)]
    ctx.label('layout=' + layout)
    gens = ref.with_layout(gens, layout)  # same generators, other strides
    gens_before = gens.copy()
    basis, comp, char = nq.matrix_space.get_matrix_orthogonal_basis(gens, field=field)
    ctx.close(gens, gens_before, 0, 'decomposition does not modify the generators')
    ctx.require(char == want_char, 'space_char identifies the structure class', f'{char} vs {want_char}')
    amb = ambient_dim(cls, m, n)
    ctx.require(basis.shape[0] == s, 'dimension of the basis = dimension of the span of the input', f'{basis.shape[0]} vs {s}')
    ctx.require(basis.shape[0] + comp.shape[0] == amb, 'basis and complement dimensions add up to the ambient structured space', f'{basis.shape[0]}+{comp.shape[0]} vs {amb}')
    embedded = cls in ('R_cT', 'R_c')
    shp = (2 * m, 2 * n) if embedded else (m, n)
    ctx.require(basis.shape[1:] == shp and (comp.shape[0] == 0 or comp.shape[1:] == shp), 'output matrix shapes', f'{basis.shape} {comp.shape}')
    real_ip = field == 'real'

    def gram(X, Y):
        g = np.einsum('aij,bij->ab', X.conj(), Y)
        return g.real if real_ip else g
    G = gram(basis, basis)
    c = float(np.real(G[0, 0]))
    ctx.require(c > 1e-6, 'basis elements are non-zero')
    ctx.close(G, c * np.eye(len(basis)), 1e-9, 'basis: mutually orthogonal matrices of one common norm', c)
    if comp.shape[0] > 0:
        Gc = gram(comp, comp)
        c2 = float(np.real(Gc[0, 0]))
        ctx.close(Gc, c2 * np.eye(len(comp)), 1e-9, 'complement: mutually orthogonal matrices of one common norm', c2)
        ctx.small(gram(basis, comp), 1e-9, 'complement is orthogonal to the basis', c)
        ctx.label('common norm of basis and complement equal' if abs(c - c2) < 1e-9 * c else 'norms differ between basis and complement')
    # span equality (least squares in the representation of the output)
    gin = np.stack([real_embed(g) for g in gens]) if embedded else gens
    A = basis.reshape(len(basis), -1).T
    Bm = gin.reshape(len(gin), -1).T
    if real_ip and (np.iscomplexobj(A) or np.iscomplexobj(Bm)):
        A = np.concatenate([A.real, A.imag], axis=0)
        Bm = np.concatenate([Bm.real, Bm.imag], axis=0)
    sc = max(1.0, float(np.abs(Bm).max()))
    res1 = Bm - A @ np.linalg.lstsq(A, Bm, rcond=None)[0]
    ctx.small(res1, 1e-8, 'every input lies in the span of the basis', sc)
    res2 = A - Bm @ np.linalg.lstsq(Bm, A, rcond=None)[0]
    ctx.small(res2, 1e-8, 'every basis element lies in the span of the input', max(1.0, float(np.abs(A).max())))
    # structure preserved
    both = np.concatenate([basis, comp], axis=0) if comp.shape[0] else basis
    if cls in ('R_T', 'C_T', 'C_T_real_input'):
        ctx.close(both, both.transpose(0, 2, 1), 1e-10, 'outputs are symmetric')
        if cls == 'R_T':
            ctx.require(not np.iscomplexobj(both) or np.abs(both.imag).max() < 1e-12, 'outputs are real')
    elif cls == 'C_H':
        ctx.close(both, both.conj().transpose(0, 2, 1), 1e-10, 'outputs are Hermitian')
    elif cls == 'R':
        ctx.require(not np.iscomplexobj(both) or np.abs(both.imag).max() < 1e-12, 'outputs are real')
    elif embedded:
        a_, b_ = both[:, :m, :n], both[:, m:, :n]
        ctx.close(both[:, m:, n:], a_, 1e-12, 'real embedding block structure (diagonal blocks)')
        ctx.close(both[:, :m, n:], -b_, 1e-12, 'real embedding block structure (off-diagonal blocks)')
        if cls == 'R_cT':
            ctx.close(a_, a_.transpose(0, 2, 1), 1e-10, 'embedded outputs are complex symmetric (real part)')
            ctx.close(b_, b_.transpose(0, 2, 1), 1e-10, 'embedded outputs are complex symmetric (imaginary part)')


# --------------------------------------------------------------------------------------------- planted low rank elements
@st.composite
def _strat_planted(draw, tier='quick'):
    kind = draw(st.sampled_from(['bipartite', 'bipartite', 'bipartite', 'tripartite', 'real_rank_one']))
    if kind == 'bipartite':
        rnk = draw(st.integers(2, 4))
        hi = 4 if tier == 'quick' else 5
        m = draw(st.integers(max(2, rnk), max(hi, rnk)))
        n = draw(st.integers(max(2, rnk), max(hi, rnk)))
        k = draw(st.integers(1, 2 if tier == 'quick' else 3))
        dim = draw(st.integers(1, 4 if k == 1 else (3 if k == 2 else 2)))
        if rnk >= 4 and k >= 2:
            dim = min(dim, 2)
        return dict(kind=kind, m=m, n=n, r=rnk, k=k, dim=dim, field=draw(st.sampled_from(['real', 'complex'])), planted=draw(st.sampled_from([True, True, True, False])),
                    prng=draw(st.integers(0, 2 ** 31)))
    if kind == 'tripartite':
        return dict(kind=kind, dims=[draw(st.integers(2, 3)) for _ in range(3)], k=draw(st.integers(1, 2)), dim=draw(st.integers(1, 3)), field=draw(st.sampled_from(['real', 'complex'])),
                    planted=draw(st.sampled_from([True, True, True, False])), prng=draw(st.integers(0, 2 ** 31)))
    return dict(kind=kind, m=draw(st.integers(2, 4)), n=draw(st.integers(2, 4)), dim=draw(st.integers(1, 4)), planted=draw(st.sampled_from([True, True, True, False])),
                prng=draw(st.integers(0, 2 ** 31)))


def _hide(r, gens, field):
    """random invertible change of basis of the generator list, then the library's own orthonormalisation"""
    nq = _nq()
    d = len(gens)
    mix = (ref.rand_complex(r, d, d) if field == 'complex' else r.normal(size=(d, d))) + 2 * np.eye(d)
    mixed = np.einsum('ab,b...->a...', mix, gens)
    return mixed


def run_planted(ctx, case):
    nq = _nq()
    kind, planted = case['kind'], case['planted']
    r = ref.rng(case['prng'])
    if kind == 'bipartite':
        m, n, rnk, k, dim, field = case['m'], case['n'], case['r'], case['k'], case['dim'], case['field']
        dim = min(dim, m * n - 1)
        ctx.note(klass='bipartite', desc=[m, n, rnk, k, dim, field, planted], nontrivial=(planted and dim >= 2), labels=[f'r={rnk}', f'k={k}', field, 'planted' if planted else 'generic'])
        rc = (lambda *s_: ref.rand_complex(r, *s_)) if field == 'complex' else (lambda *s_: r.normal(size=s_))
        low = rc(m, rnk - 1) @ rc(rnk - 1, n)
        gens = np.stack(([low] if planted else [rc(m, n)]) + [rc(m, n) for _ in range(dim - 1)])
        mixed = _hide(r, gens, field)
        if field == 'complex':
            mixed = mixed.astype(np.complex128)
        basis = nq.matrix_space.get_matrix_orthogonal_basis(mixed, field=field)[0]
        if basis.shape[0] != dim:
            ctx.label('degenerate draw')
            return
        out = nq.matrix_space.has_rank_hierarchical_method(basis, rank=rnk, hierarchy_k=k)
        if planted:
            ctx.require(not bool(out), 'no rank certificate for a subspace that contains an element of rank below the bound', f'm={m} n={n} rank bound={rnk} k={k} dim={dim} {field}')
        else:
            ctx.label('generic subspace certified' if out else 'generic subspace not certified')
    elif kind == 'tripartite':
        dims, k, dim, field = case['dims'], case['k'], case['dim'], case['field']
        D = int(np.prod(dims))
        dim = min(dim, D - 1)
        ctx.note(klass='tripartite', desc=[dims, k, dim, field, planted], nontrivial=(planted and dim >= 2), labels=[f'k={k}', field, 'planted' if planted else 'generic'])
        rc = (lambda *s_: ref.rand_complex(r, *s_)) if field == 'complex' else (lambda *s_: r.normal(size=s_))
        prod = np.einsum('a,b,c->abc', rc(dims[0]), rc(dims[1]), rc(dims[2]))
        gens = np.stack(([prod] if planted else [rc(*dims)]) + [rc(*dims) for _ in range(dim - 1)])
        mixed = _hide(r, gens, field).reshape(dim, -1)
        q, _ = np.linalg.qr(mixed.T)
        basis = [q[:, i].reshape(dims) for i in range(dim)]
        out = nq.matrix_space.is_ABC_completely_entangled_subspace(basis, hierarchy_k=k)
        if planted:
            ctx.require(not bool(out), 'no "completely entangled" certificate for a subspace that contains a product vector', f'dims={dims} k={k} dim={dim} {field}')
        else:
            ctx.label('generic subspace certified' if out else 'generic subspace not certified')
    else:
        m, n, dim = case['m'], case['n'], min(case['dim'], case['m'] * case['n'] - 1)
        ctx.note(klass='real_rank_one', desc=[m, n, dim, planted], nontrivial=(planted and dim >= 2), labels=['planted' if planted else 'generic'])
        symmetric = (m == n and case['prng'] % 2 == 0)  # a subspace of real SYMMETRIC matrices (its own structure class in the basis routine), planted element x x^T
        if symmetric:
            x = r.normal(size=m)
            sym = lambda: (lambda z: (z + z.T) / 2)(r.normal(size=(m, m)))  # noqa: E731
            dim = min(dim, m * (m + 1) // 2 - 1)
            gens = np.stack(([np.outer(x, x)] if planted else [sym()]) + [sym() for _ in range(max(0, dim - 1))])
            ctx.label('symmetric subspace')
        else:
            low = np.outer(r.normal(size=m), r.normal(size=n))
            gens = np.stack(([low] if planted else [r.normal(size=(m, n))]) + [r.normal(size=(m, n)) for _ in range(dim - 1)])
        mixed = _hide(r, gens, 'real')
        if m != n:
            # the docstring names square matrices, the code reads both dimensions separately: the non-square array is handed over as it is, too
            tag_ns, ub_ns = nq.matrix_space.detect_real_matrix_subspace_rank_one(mixed)
            if planted:
                ctx.require(bool(tag_ns) and ub_ns >= 1 - 1e-6, '"no rank-one element" is not certified for a real subspace of NON-SQUARE matrices that contains one', f'm={m} n={n} dim={dim} bound={ub_ns}')
            ctx.label('non-square: detector documented for square matrices, padded')
            N = max(m, n)
            pad = np.zeros((dim, N, N))
            pad[:, :m, :n] = mixed
            mixed = pad
        tag, ub = nq.matrix_space.detect_real_matrix_subspace_rank_one(mixed)
        ctx.require(np.isfinite(ub), 'upper bound finite')
        if planted:
            ctx.require(bool(tag), '"no rank-one element" is not certified for a real subspace that contains one', f'm={m} n={n} dim={dim} bound={ub}')
            ctx.require(ub >= 1 - 1e-6, 'the numerical-range bound reaches 1 when a rank-one element exists', f'{ub}')
        else:
            ctx.label('generic subspace certified' if not tag else 'generic subspace not certified')


# --------------------------------------------------------------------------------------------- numerical range
@st.composite
def _strat_nr(draw, tier='quick'):
    return dict(n=draw(st.integers(2, 8)), kind=draw(st.sampled_from(['complex', 'normal', 'hermitian', 'real', 'nilpotent'])), npt=draw(st.sampled_from([1, 7, 40])),
                prng=draw(st.integers(0, 2 ** 31)))


def run_nr(ctx, case):
    nq = _nq()
    n, kind = case['n'], case['kind']
    ctx.note(klass='numerical_range', desc=[n, kind, case['npt']], nontrivial=(kind != 'hermitian'), labels=[kind, 'arpack' if n >= 5 else 'dense'])
    r = ref.rng(case['prng'])
    if kind == 'complex':
        A = ref.rand_complex(r, n, n)
    elif kind == 'normal':
        U = ref.rand_unitary(r, n)
        A = (U * ref.rand_complex(r, n)) @ U.conj().T
    elif kind == 'hermitian':
        A = ref.rand_hermitian(r, n).astype(np.complex128)
    elif kind == 'real':
        A = r.normal(size=(n, n))
    else:
        A = np.triu(ref.rand_complex(r, n, n), 1)
    layout = ref.LAYOUTS[(case['prng'] // 7) % len(ref.LAYOUTS)]
    ctx.label('layout=' + layout)
    A = ref.with_layout(A, layout)
    A_before = A.copy()
    z = nq.matrix_space.get_matrix_numerical_range(A, num_point=case['npt'])
    ctx.close(A, A_before, 0, 'numerical range does not modify the matrix')
    ctx.require(z.shape == (case['npt'],), 'one point per direction')
    nrm = np.linalg.norm(A, 2)
    thetas = np.linspace(0, 2 * np.pi, case['npt'])
    for t, zt in zip(thetas, z):
        H = (np.exp(1j * t) * A + np.exp(-1j * t) * A.conj().T) / 2
        lam = np.linalg.eigvalsh(H)[-1]
        ctx.close((np.exp(1j * t) * zt).real, lam, 1e-8, 'returned point attains the support function in its direction', max(1.0, nrm))
        ctx.require(abs(zt) <= nrm * (1 + 1e-9) + 1e-12, 'points of the numerical range lie in the disc of radius |A|_2')
        ctx.tick()


SUBCHECKS = [
    SubCheck('decomposition', run_dec, strategy=_strat_dec, examples=(1200, 8000), shards=(3, 16), floors={'dependent generators': 0.4}),
    SubCheck('planted', run_planted, strategy=_strat_planted, examples=(150, 1200), shards=(6, 16), floors={'planted': 0.5}),
    SubCheck('numerical_range', run_nr, strategy=_strat_nr, examples=(200, 1500), shards=(2, 8)),
]
