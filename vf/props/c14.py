"""C14 - finite-group tables are groups; partition and tableau counts are exact."""
import math
import itertools
import numpy as np
from hypothesis import strategies as st

from ..core import SubCheck
from .. import ref

PROPERTY = 'C14'
RULE = ('complete enumeration: every constructible Cayley table S2..S5, A3..A5, D3..D12, C2..C12, (Z/n)^x for 3<=n<=24, Klein, quaternion '
        '(group axioms over all element triples, left-regular form, irreducible blocks; irreps for order<=24 in quick, <=120 in thorough), '
        'partition counts N<=60 against the pentagonal recurrence, diagram lists N<=12 (N<=20 thorough), standard Young tableaux of every '
        'partition of N<=8 (N<=10 thorough) against direct hook counting. Every enumerated (table)/(N)/(shape) is one distinct non-trivial case.'
        ' Histories also build S_n / A_n tables in generated order after clearing the caches; second-call clause (edit the returned array, call again) for tables, partition table, diagrams and tableaux; quick tier also enumerates the shapes of N=9..12 with few tableaux.')
RULE += " Left-regular forms are also taken from one array object that is overwritten in place with another group's table between the calls."
ASSUMPTIONS = ['expected group orders n!, n!/2, 2n, n, phi(n), 4, 8 and the hook-length formula are computed independently in vf',
               'irreducibility/inequivalence of the returned blocks is decided by character orthonormality at 1e-8']


def _g():
    import numqi
    return numqi.group


def _table(case):
    g = _g()
    k, n = case['kind'], case.get('n')
    if k == 'sym':
        return g.get_symmetric_group_cayley_table(n), math.factorial(n)
    if k == 'alt':
        return g.get_symmetric_group_cayley_table(n, alternating=True), math.factorial(n) // 2
    if k == 'dih':
        return g.get_dihedral_group_cayley_table(n), 2 * n
    if k == 'cyc':
        return g.get_cyclic_group_cayley_table(n), n
    if k == 'mul':
        return g.get_multiplicative_group_cayley_table(n), sum(1 for x in range(1, n) if math.gcd(x, n) == 1)
    if k == 'klein':
        return g.get_klein_four_group_cayley_table(), 4
    if k == 'quat':
        return g.get_quaternion_cayley_table(), 8
    raise ValueError(k)


def _conj_classes(T, e, inv):
    N = len(T)
    seen = set()
    classes = []
    for a in range(N):
        if a in seen:
            continue
        cl = {int(T[T[x, a], inv[x]]) for x in range(N)}
        classes.append(sorted(cl))
        seen |= cl
    return classes


def run_tables(ctx, case):
    g = _g()
    ctx.note(klass=case['kind'], desc=[case['kind'], case.get('n')], nontrivial=True, labels=[case['kind']])
    ctx.fresh(lambda: _table(case)[0], 'Cayley table: a second call is not affected by editing the array returned by the first')
    T, order = _table(case)

    # the same ndarray object holding first this table, then (overwritten in place) the table of the opposite group: the left-regular form follows the contents
    buf = np.array(_table(case)[0], copy=True)
    L1 = np.asarray(g.cayley_table_to_left_regular_form(buf))
    buf[...] = buf.T.copy()
    L2 = np.asarray(g.cayley_table_to_left_regular_form(buf))
    L2_fresh = np.asarray(g.cayley_table_to_left_regular_form(np.array(buf, copy=True)))
    ctx.close(L2, L2_fresh, 0, 'left-regular form of an array that was overwritten in place = form of a fresh copy of its contents')
    T = np.asarray(T)
    ctx.require(T.ndim == 2 and T.shape == (order, order), 'table has the stated order', f'{T.shape} vs {order}')
    N = order
    ctx.require(np.issubdtype(T.dtype, np.integer) and T.min() == 0 and T.max() == N - 1, 'entries are element indices')
    rng = np.arange(N)
    ctx.require(all(np.array_equal(np.sort(T[i]), rng) for i in range(N)), 'rows are permutations (closure, cancellation)')
    ctx.require(all(np.array_equal(np.sort(T[:, i]), rng) for i in range(N)), 'columns are permutations')
    ctx.require(np.array_equal(T[T], T[:, T]), 'associative over all triples')
    ctx.tick(N ** 3)
    ids = [e for e in range(N) if np.array_equal(T[e], rng) and np.array_equal(T[:, e], rng)]
    ctx.require(len(ids) == 1, 'unique two-sided identity', f'{ids}')
    e = ids[0]
    inv = np.full(N, -1)
    for a in range(N):
        bs = np.nonzero(T[a] == e)[0]
        ctx.require(len(bs) == 1 and T[bs[0], a] == e, 'two-sided inverse', f'a={a}')
        inv[a] = bs[0]
    # element orders
    ords = []
    for a in range(N):
        x, k = a, 1
        while x != e:
            x = T[x, a]
            k += 1
        ords.append(k)
    abelian = np.array_equal(T, T.T)
    k, n = case['kind'], case.get('n')
    if k in ('cyc',):
        ctx.require(abelian and max(ords) == n, 'cyclic group has a generator')
    if k == 'mul':
        ctx.require(abelian, '(Z/n)^x abelian')
    if k == 'klein':
        ctx.require(abelian and sorted(ords) == [1, 2, 2, 2], 'Klein four group element orders')
    if k == 'quat':
        ctx.require((not abelian) and sorted(ords) == [1, 2, 4, 4, 4, 4, 4, 4], 'quaternion group element orders')
    if k == 'dih':
        ctx.require((abelian is False) and sum(1 for o in ords if o == 2) == (n + (1 if n % 2 == 0 else 0)) and max(ords) == n if n > 2 else True,
                    'dihedral group: n reflections (+ the half turn) of order 2, a rotation of order n', f'{sorted(ords)}')
    if k == 'sym':
        ctx.require((abelian == (n == 2)) and sum(1 for o in ords if o == 2) == sum(
            math.factorial(n) // (math.factorial(n - 2 * j) * math.factorial(j) * 2 ** j) for j in range(1, n // 2 + 1)), 'S_n involution count')
    if k == 'alt':
        ctx.require(abelian == (n <= 3), 'A_n abelian iff n<=3')
        if n >= 3:
            ctx.require(sum(1 for o in ords if o == 3) == math.factorial(n) // (math.factorial(n - 3) * 3), 'A_n 3-cycle count (n<=5)')
    # left regular form
    L = g.cayley_table_to_left_regular_form(T)
    ctx.require(L.shape == (N, N, N), 'left regular shape')
    ctx.require(np.all((L == 0) | (L == 1)) and np.all(L.sum(axis=1) == 1) and np.all(L.sum(axis=2) == 1), 'left regular form: permutation matrices')
    P = L.argmax(axis=1)  # P[a, j] = row of the 1 in column j: L[a] e_j = e_{P[a,j]}
    ctx.require(np.array_equal(P, T), 'L[a] e_j = e_{a j}')
    ctx.require(np.array_equal(P[:, P], P[T]), 'L[a]L[b]=L[ab]')
    ctx.require(len({x.tobytes() for x in L}) == N, 'left regular form faithful')
    ctx.require(np.array_equal(L[:, :, e].argmax(axis=1), rng), 'L[a] e = a')
    if N <= case.get('irrep_cap', 0):
        irreps = g.reduce_group_representation(L)
        classes = _conj_classes(T, e, inv)
        ctx.require(sum(x.shape[1] ** 2 for x in irreps) == N, 'sum dim^2 = |G|', f'{[x.shape[1] for x in irreps]}')
        ctx.require(len(irreps) == len(classes), '#irreps = #conjugacy classes', f'{len(irreps)} vs {len(classes)}')
        chars = []
        for D in irreps:
            d = D.shape[1]
            ctx.require(D.shape == (N, d, d), 'irrep shape')
            ctx.close(D @ D.conj().transpose(0, 2, 1), np.broadcast_to(np.eye(d), (N, d, d)), 1e-8, 'irrep unitary')
            ctx.close(np.einsum('aij,bjk->abik', D, D), D[T], 1e-8, 'irrep homomorphism')
            chars.append(np.trace(D, axis1=1, axis2=2))
        chars = np.array(chars)
        ctx.close(chars @ chars.conj().T / N, np.eye(len(irreps)), 1e-8, 'characters orthonormal (irreducible, pairwise inequivalent)')
        ctx.label('irreps')


def cases_tables(tier):
    cap = 24 if tier == 'quick' else 120
    out = [dict(kind='sym', n=n) for n in range(2, 6)] + [dict(kind='alt', n=n) for n in range(3, 6)]
    out += [dict(kind='dih', n=n) for n in range(3, 13)] + [dict(kind='cyc', n=n) for n in range(2, 13)]
    out += [dict(kind='mul', n=n) for n in range(3, 25)] + [dict(kind='klein'), dict(kind='quat')]
    for c in out:
        c['irrep_cap'] = cap
    return out


def _count_parts_le(n, m, memo={}):
    if n == 0:
        return 1
    if m == 0:
        return 0
    key = (n, m)
    if key not in memo:
        memo[key] = sum(_count_parts_le(n - k * m, m - 1) for k in range(n // m + 1))
    return memo[key]


def run_partitions(ctx, case):
    g = _g()
    N = case['N']
    ctx.note(klass='count', desc=['p', N], nontrivial=True)
    p = g.get_sym_group_num_irrep(N)
    ctx.require(int(p) == ref.num_partitions(N), 'number of irreps of S_N = p(N)', f'N={N}: {p} vs {ref.num_partitions(N)}')
    r = g.get_sym_group_num_irrep(N, return_full=True)
    ctx.require(int(r[0]) == ref.num_partitions(N), 'return_full count')
    z = np.asarray(r[1])
    ctx.require(z.shape == (N + 1, N + 1), 'full table shape')
    if N <= 40:
        want = np.array([[_count_parts_le(n, min(m, n)) if n > 0 else 1 for m in range(N + 1)] for n in range(N + 1)])
        # column m=0 is documented only implicitly (set to 1); compare m>=1
        ctx.require(np.array_equal(z[:, 1:], want[:, 1:]), 'full table = #partitions of n into parts <= m', f'N={N}')
    ctx.fresh(lambda: g.get_sym_group_num_irrep(N, return_full=True)[1], 'get_sym_group_num_irrep(return_full): a second call is not affected by editing the table returned by the first')
    if N <= case['diag_cap']:
        ctx.fresh(lambda: g.get_sym_group_young_diagram(N), 'get_sym_group_young_diagram: a second call is not affected by editing the array returned by the first')
        Y = np.asarray(g.get_sym_group_young_diagram(N))
        ctx.require(Y.ndim == 2 and Y.shape[1] == N, 'diagram list shape', f'{Y.shape}')
        got = [tuple(int(v) for v in row if v > 0) for row in Y]
        ctx.require(all(list(row) == sorted(row, reverse=True) and min(row) >= 0 for row in Y.tolist()), 'rows weakly decreasing, zero padded')
        ctx.require(len(set(got)) == len(got), 'no duplicate diagrams')
        ctx.require(set(got) == set(ref.partitions(N)), 'diagram list = set of partitions of N', f'N={N}: {len(got)} vs {len(ref.partitions(N))}')
        ctx.label('diagrams')


def cases_partitions(tier):
    cap = 12 if tier == 'quick' else 22
    return [dict(N=N, diag_cap=cap) for N in range(1, 61)]


def run_tableaux(ctx, case):
    g = _g()
    shape = tuple(case['shape'])
    N = sum(shape)
    ctx.note(klass='tableaux', desc=list(shape), nontrivial=True)
    want = ref.hook_number(shape)
    h = g.get_hook_length(*shape)
    ctx.require(int(h) == want, 'get_hook_length = hook formula', f'{shape}: {h} vs {want}')
    if want <= 200:
        ctx.fresh(lambda: g.get_all_young_tableaux(shape), 'get_all_young_tableaux: a second call is not affected by editing the array returned by the first')
    T = np.asarray(g.get_all_young_tableaux(shape))
    ctx.require(T.ndim == 3 and T.shape[1:] == (len(shape), shape[0]), 'tableaux array shape', f'{T.shape}')
    ctx.require(T.shape[0] == want, 'number of tableaux = hook-length number', f'{shape}: {T.shape[0]} vs {want}')
    mask = np.zeros((len(shape), shape[0]), dtype=bool)
    for i, r in enumerate(shape):
        mask[i, :r] = True
    seen = set()
    for t in T:
        ent = t[mask]
        ctx.require(sorted(ent.tolist()) == list(range(N)), 'entries 0..N-1 once each', f'{t.tolist()}')
        ctx.require(np.all(t[~mask] == 0), 'padding is zero')
        for i, r in enumerate(shape):
            ctx.require(all(t[i, j] < t[i, j + 1] for j in range(r - 1)), 'rows increasing', f'{t.tolist()}')
        for j in range(shape[0]):
            col = [t[i, j] for i, r in enumerate(shape) if r > j]
            ctx.require(all(a < b for a, b in zip(col, col[1:])), 'columns increasing', f'{t.tolist()}')
        seen.add(t.tobytes())
        ctx.tick()
    ctx.require(len(seen) == T.shape[0], 'tableaux pairwise distinct')


def cases_tableaux(tier):
    top = 8 if tier == 'quick' else 10
    out = [dict(shape=list(p)) for N in range(1, top + 1) for p in ref.partitions(N)]
    if tier == 'quick':
        # beyond the exhaustive range: every shape of N = 9, 10 with at most 100 tableaux (wide first rows, hooks, near two-row shapes) and N = 11, 12 with at most 60
        for N, cap in ((9, 100), (10, 100), (11, 60), (12, 60)):
            out += [dict(shape=list(p)) for p in ref.partitions(N) if ref.hook_number(p) <= cap]
    if tier == 'thorough':
        # a sample of shapes with N = 11, 12 (the large middle shapes have > 5000 tableaux; keep hooks, two-row/column and near-rectangles)
        for N in (11, 12):
            for p in ref.partitions(N):
                if ref.hook_number(p) <= 2500:
                    out.append(dict(shape=list(p)))
    return out


@st.composite
def _strat_history(draw, tier='quick'):
    ops = draw(st.lists(st.tuples(st.sampled_from(['count', 'full', 'diagram', 'hook', 'tableaux', 'sym_table', 'alt_table']), st.integers(1, 30)), min_size=2, max_size=8))
    return dict(ops=[list(x) for x in ops])


def run_history(ctx, case):
    """the counting functions are memoised: any order of calls must give the same answers"""
    g = _g()
    ops = case['ops']
    Ns = [n for _, n in ops]
    dec = any(a > b for a, b in zip(Ns, Ns[1:]))
    ctx.note(klass='history', desc=[[k for k, _ in ops], dec], nontrivial=dec, labels=['decreasing' if dec else 'monotone'])
    # fresh memo state for every history: the lru caches are the only state
    from numqi.group import _symmetric as S
    for name in dir(S):
        fn = getattr(S, name)
        if hasattr(fn, 'cache_clear'):
            fn.cache_clear()
    for name in dir(S):
        v = getattr(S, name)
        if isinstance(v, dict) and name.startswith('_') and not name.startswith('__'):
            v.clear()  # module-level memo tables, if any
    for kind, N in ops:
        if kind == 'count':
            ctx.require(int(g.get_sym_group_num_irrep(N)) == ref.num_partitions(N), 'number of irreps of S_N = p(N)', f'N={N} after {ops}')
        elif kind == 'full':
            c, z = g.get_sym_group_num_irrep(N, return_full=True)
            ctx.require(int(c) == ref.num_partitions(N) and np.asarray(z).shape == (N + 1, N + 1) and int(np.asarray(z)[N, N]) == ref.num_partitions(N),
                        'return_full count', f'N={N}')
        elif kind in ('sym_table', 'alt_table'):
            n = 2 + N % (3 if ctx.tier == 'quick' else 4)  # S_2..S_4 (S_5 thorough); A_n for n>=3
            alt = kind == 'alt_table' and n >= 3
            T = np.asarray(g.get_symmetric_group_cayley_table(n, alternating=True) if alt else g.get_symmetric_group_cayley_table(n))
            order = math.factorial(n) // (2 if alt else 1)
            tag = f'{"A" if alt else "S"}_{n} after {ops}'
            ctx.require(T.shape == (order, order), 'table of the stated order (any order of calls)', tag)
            rng_ = np.arange(order)
            ctx.require(all(np.array_equal(np.sort(T[i]), rng_) for i in range(order)) and all(np.array_equal(np.sort(T[:, i]), rng_) for i in range(order)),
                        'Latin square (any order of calls)', tag)
            ctx.require(np.array_equal(T[T[:, :, None], rng_[None, None, :]], T[rng_[:, None, None], T[None, :, :]]), 'associative (any order of calls)', tag)
            ctx.label(kind)
        elif kind == 'diagram':
            N = min(N, 14)
            Y = np.asarray(g.get_sym_group_young_diagram(N))
            got = [tuple(int(v) for v in row if v > 0) for row in Y]
            ctx.require(len(set(got)) == len(got) and set(got) == set(ref.partitions(N)), 'diagram list = set of partitions of N', f'N={N}')
        elif kind == 'hook':
            N = min(N, 16)
            p = ref.partitions(N)[(N * 7) % ref.num_partitions(N)]
            ctx.require(int(g.get_hook_length(*p)) == ref.hook_number(p), 'get_hook_length = hook formula', f'{p}')
        else:
            N = min(N, 7)
            p = ref.partitions(N)[(N * 5) % ref.num_partitions(N)]
            T = np.asarray(g.get_all_young_tableaux(p))
            ctx.require(T.shape[0] == ref.hook_number(p) and len({t.tobytes() for t in T}) == T.shape[0], 'number of tableaux = hook-length number', f'{p}')


def run_hooks(ctx, case):
    g = _g()
    N = case['N']
    ctx.note(klass='hooks', desc=['hooks', N], nontrivial=True)
    for p in ref.partitions(N):
        h = g.get_hook_length(*p)
        ctx.require(int(h) == ref.hook_number(p), 'get_hook_length = hook formula', f'{p}: {h} vs {ref.hook_number(p)}')
        tp = tuple(int(x) for x in g.get_young_diagram_transpose(p) if x > 0)
        ctx.require(tp == tuple(sum(1 for r in p if r > j) for j in range(p[0])), 'diagram transpose')
        ctx.require(int(g.get_hook_length(*tp)) == int(h), 'hook number invariant under transposition')
        ctx.tick()


def cases_hooks(tier):
    return [dict(N=N) for N in range(1, 19 if tier == 'quick' else 27)]


SUBCHECKS = [
    SubCheck('history', run_history, strategy=_strat_history, examples=(400, 3000), floors={'decreasing': 0.4},
             doc='memoised counting functions called in arbitrary order (histories), each answer against the independent recurrence'),
    SubCheck('hooks', run_hooks, cases=cases_hooks, shards=(4, 16), doc='hook-length numbers of every partition of N<=18 (N<=26 thorough), no enumeration'),
    SubCheck('tables', run_tables, cases=cases_tables, shards=(8, 16), doc='group axioms, left-regular form, irreducible blocks of every constructible table'),
    SubCheck('partitions', run_partitions, cases=cases_partitions, shards=(2, 4), doc='p(N) for N<=60, full table, diagram lists'),
    SubCheck('tableaux', run_tableaux, cases=cases_tableaux, shards=(4, 16), doc='standard Young tableaux of every partition of N<=8/10'),
]
