"""C06 - boundaries are exact thresholds and the detection hierarchy is nested."""
import math
import numpy as np
from hypothesis import strategies as st

from ..core import SubCheck
from .. import ref

PROPERTY = 'C06'
RULE = ('hypothesis: directions = random density matrices (full / low rank), random Hermitian trace-one matrices (not PSD), entangled directions (maximally entangled state '
        'mixed with noise), single and batched (k,), with and without dm_norm, in dims (2,2),(2,3),(3,2),(3,3),(2,4); inner models PureBosonicExt(dA,dB,k), AutodiffCHAREE at '
        'arbitrary parameters theta ~ N(0,s^2), s in {0.1,1,10} (no optimiser) and CHABoundaryBagging.solve on (2,2); SDP boundaries for k=1..3 with PPT / bosonic flags '
        'called in generated orders (the irrep data is memoised). Oracle: eigenvalues just inside / outside the reported boundary (delta=1e-6) with own partial transpose, '
        'explicit interpolation formula, membership of inner-model states in every outer set, explicit convex combination of product projectors, ordering of the boundary '
        'lengths within the solver tolerance 1e-4. Non-trivial = generic direction and (for models / ordering) k>=2; distinct = (sub-check, dims, k, flags, batch).'
        " The CHA object is solved a second time for another direction without re-initialisation; SDP verdicts that come with a solver warning 'inaccurate' are inconclusive for the outside-fails clause."
        ' Directions at Gell-Mann distance 3e-8 from the maximally mixed state and integer-dtype directions give the same rays as their rescaled / float copies.')
RULE += ' Half of the convex-hull (LP) cases pass a caller-chosen reset threshold (3e-3): the returned weights still sum to one and rebuild the boundary state.'
ASSUMPTIONS = ['SDP values are accurate to about 1e-5 in this image (CLARABEL/SCS); orderings are judged at 1e-4',
               'CHABoundaryBagging: a cvxpy SolverError (no ECOS here) is inconclusive; only returned decompositions are judged',
               'the k=1 extension boundary is the state-space boundary']

DIMS = [[2, 2], [2, 3], [3, 2], [3, 3], [2, 4]]


def _nq():
    import numqi
    return numqi


def gm_norm(X):
    D = X.shape[-1]
    Y = X - np.trace(X, axis1=-2, axis2=-1)[..., None, None] * np.eye(D) / D
    return np.linalg.norm(Y.reshape(Y.shape[:-2] + (-1,)), axis=-1) / math.sqrt(2)


def ray(rho, beta):
    D = rho.shape[0]
    rho0 = np.eye(D) / D
    return rho0 + beta * (rho - rho0) / gm_norm(rho)


def make_direction(r, D, kind, dims=None):
    if kind == 'dm':
        return ref.rand_dm(r, D)
    if kind == 'lowrank':
        return ref.rand_dm(r, D, max(1, D // 3))
    if kind == 'hermitian':
        H = ref.rand_hermitian(r, D)
        H = H - np.trace(H).real * np.eye(D) / D
        return np.eye(D) / D + H
    dA, dB = dims
    m = min(dA, dB)
    psi = np.zeros((dA, dB), dtype=np.complex128)
    for i in range(m):
        psi[i, i] = 1 / math.sqrt(m)
    U = np.kron(ref.rand_unitary(r, dA), ref.rand_unitary(r, dB))
    v = U @ psi.reshape(-1)
    p = r.uniform(0.3, 0.95)
    return p * np.outer(v, v.conj()) + (1 - p) * ref.rand_dm(r, D)


@st.composite
def _strat_bd(draw, tier='quick'):
    return dict(dims=draw(st.sampled_from(DIMS)), kind=draw(st.sampled_from(['dm', 'lowrank', 'hermitian', 'entangled'])), batch=draw(st.sampled_from([0, 0, 1, 3])),
                norm=draw(st.booleans()), within=draw(st.booleans()), b=draw(st.floats(-0.5, 0.5)), prng=draw(st.integers(0, 2 ** 31)))


def run_boundary(ctx, case):
    nq = _nq()
    E = nq.entangle
    dims = tuple(case['dims'])
    D = dims[0] * dims[1]
    r = ref.rng(case['prng'])
    nb = max(1, case['batch'])
    rhos = np.stack([make_direction(r, D, case['kind'], dims) for _ in range(nb)])
    arg = rhos if case['batch'] else rhos[0]
    ctx.note(klass=case['kind'], desc=[list(dims), case['kind'], case['batch'], case['norm'], case['within']], nontrivial=(case['kind'] != 'dm' or case['batch'] > 0),
             labels=[case['kind'], f'batch={case["batch"]}', 'dm_norm given' if case['norm'] else 'dm_norm None'])
    norms = gm_norm(rhos)
    nrm_arg = (norms if case['batch'] else norms[0]) if case['norm'] else None
    ctx.close(nq.gellmann.dm_to_gellmann_norm(arg), norms if case['batch'] else norms[0], 1e-12, 'Gell-Mann norm = Frobenius norm of the traceless part / sqrt 2')
    arg_before = arg.copy()
    bl, bu = E.get_density_matrix_boundary(arg, dm_norm=nrm_arg)
    bl, bu = np.atleast_1d(bl), np.atleast_1d(bu)
    ctx.require(bl.shape == (nb,) and bu.shape == (nb,), 'boundary shapes follow the batch')
    pl, pu = E.get_ppt_boundary(arg, dims, dm_norm=nrm_arg, within_dm=case['within'])
    pl, pu = np.atleast_1d(pl), np.atleast_1d(pu)
    ctx.close(arg, arg_before, 0, 'boundary routines do not modify their input')
    d = 1e-6
    for i in range(nb):
        rho = rhos[i]
        ctx.require(bl[i] < 0 < bu[i], 'state-space boundary brackets the maximally mixed state', f'{bl[i]} {bu[i]}')
        for b, side in ((bu[i], 'upper'), (bl[i], 'lower')):
            ctx.require(ref.min_eig(ray(rho, b * (1 - d))) >= -1e-12, f'just inside the {side} state-space boundary the matrix is positive', f'beta={b}')
            ctx.require(ref.min_eig(ray(rho, b * (1 + d))) < 0, f'just outside the {side} state-space boundary the matrix is not positive', f'beta={b}')
        for b, side in ((pu[i], 'upper'), (pl[i], 'lower')):
            inside, outside = ray(rho, b * (1 - d)), ray(rho, b * (1 + d))
            pin = ref.min_eig(ref.partial_transpose(inside, dims, [1]))
            pout = ref.min_eig(ref.partial_transpose(outside, dims, [1]))
            ctx.require(pin >= -1e-12, f'just inside the {side} PPT boundary the partial transpose is positive', f'beta={b} min={pin}')
            if case['within']:
                ctx.require(ref.min_eig(inside) >= -1e-12, f'just inside the {side} PPT boundary (within_dm) the state is positive', f'beta={b}')
                ctx.require(pout < 0 or ref.min_eig(outside) < 0, f'just outside the {side} PPT boundary (within_dm) the state or its partial transpose is not positive', f'beta={b}')
                ctx.require(abs(b) <= abs(bu[i] if side == 'upper' else bl[i]) * (1 + 1e-12), 'PPT boundary within the state-space boundary')
            else:
                ctx.require(pout < 0, f'just outside the {side} PPT boundary the partial transpose is not positive', f'beta={b} min={pout}')
        # element-wise = batched
        s_l, s_u = E.get_density_matrix_boundary(rho)
        ctx.close([s_l, s_u], [bl[i], bu[i]], 1e-12, 'batched boundary = element-wise boundary')
        q_l, q_u = E.get_ppt_boundary(rho, dims, within_dm=case['within'])
        ctx.close([q_l, q_u], [pl[i], pu[i]], 1e-12, 'batched PPT boundary = element-wise')
        # interpolation helper
        b = case['b']
        got = E.hf_interpolate_dm(rho, beta=b, dm_norm=(norms[i] if case['norm'] else None))
        ctx.close(got, ray(rho, b), 1e-12, 'hf_interpolate_dm(beta) places the state at Gell-Mann distance beta along the direction')
        if abs(b) > 1e-6:
            ctx.close(gm_norm(got), abs(b), 1e-12, 'interpolated state has Gell-Mann norm |beta|')
        a = 0.5 + b
        ctx.close(E.hf_interpolate_dm(rho, alpha=a), a * rho + (1 - a) * np.eye(D) / D, 1e-13, 'hf_interpolate_dm(alpha) = alpha rho + (1-alpha) I/N')
        ctx.close(E.hf_interpolate_dm(rho, alpha=a), E.hf_interpolate_dm(rho, beta=a * norms[i]), 1e-12, 'alpha and beta forms agree')
        ctx.tick()
    if case['prng'] % 4 == 1:
        # a direction given by a state very close to the maximally mixed state (Gell-Mann length ~1e-8): the ray is the same as for its rescaled copy
        Hh = ref.rand_hermitian(r, D)
        Hh = Hh - np.trace(Hh).real / D * np.eye(D)
        tiny = np.eye(D) / D + 3e-8 * Hh / gm_norm((np.eye(D) / D + Hh)[None])[0]
        big = np.eye(D) / D + 0.05 * Hh / gm_norm((np.eye(D) / D + Hh)[None])[0]
        got_t = E.hf_interpolate_dm(tiny, beta=0.05)
        ctx.close(got_t, big, 1e-7, 'hf_interpolate_dm(beta) from a direction of Gell-Mann length 3e-8 lands at distance beta (relative accuracy of the norm)')
        ctx.close(np.asarray(E.get_density_matrix_boundary(tiny)), np.asarray(E.get_density_matrix_boundary(big)), 1e-6, 'state-space boundary along a direction of Gell-Mann length 3e-8 = boundary along the rescaled direction',
                  max(1.0, float(np.abs(np.asarray(E.get_density_matrix_boundary(big))).max())))
        ctx.label('tiny direction')
    if case['prng'] % 4 == 0:
        # a direction written down with integers (a computational basis projector, or a 0/1 diagonal): same rays as its float copy
        rho_i = np.zeros((D, D), dtype=np.int64)
        j = int(r.integers(0, D))
        rho_i[j, j] = 1
        rho_f = rho_i.astype(np.float64)
        ctx.close(nq.gellmann.dm_to_gellmann_norm(rho_i), gm_norm(rho_f[None])[0], 1e-12, 'Gell-Mann norm of an integer-dtype state = norm of its float copy')
        ctx.close(E.get_density_matrix_boundary(rho_i), E.get_density_matrix_boundary(rho_f), 1e-12, 'state-space boundary of an integer-dtype direction = boundary of its float copy')
        ctx.close(E.get_ppt_boundary(rho_i, dims), E.get_ppt_boundary(rho_f, dims), 1e-12, 'PPT boundary of an integer-dtype direction = boundary of its float copy')
        ctx.close(E.hf_interpolate_dm(rho_i, beta=case['b']), ray(rho_f, case['b']), 1e-12, 'hf_interpolate_dm(beta) of an integer-dtype direction')
        ctx.label('integer dtype direction')


# --------------------------------------------------------------------------------------------- inner models
@st.composite
def _strat_inner(draw, tier='quick'):
    model = draw(st.sampled_from(['pureb', 'pureb', 'chagd', 'cha_lp']))
    if model == 'pureb':
        dims = draw(st.sampled_from([[2, 2], [2, 3], [3, 2], [3, 3]] if tier == 'thorough' else [[2, 2], [2, 2], [2, 3], [3, 2]]))
        k = draw(st.integers(1, 4 if dims[1] == 2 else 3))
    elif model == 'chagd':
        dims = draw(st.sampled_from([[2, 2], [2, 3], [3, 3]] if tier == 'thorough' else [[2, 2], [2, 3]]))
        k = 2
    else:
        dims, k = [2, 2], 1
    return dict(model=model, dims=dims, k=k, scale=draw(st.sampled_from([0.1, 1.0, 10.0])), kp=draw(st.integers(1, 4)), ppt=draw(st.booleans()), boson=draw(st.booleans()),
                prng=draw(st.integers(0, 2 ** 31)))


def run_inner(ctx, case):
    import torch
    nq = _nq()
    E = nq.entangle
    dims = tuple(case['dims'])
    D = dims[0] * dims[1]
    r = ref.rng(case['prng'])
    model = case['model']
    ctx.note(klass=model, desc=[model, list(dims), case['k'], case['scale'], case['kp'], case['ppt'], case['boson']], nontrivial=(case['k'] >= 2 or model != 'pureb'),
             labels=[model, f'dims={list(dims)}', f'k={case["k"]}'])
    if model in ('pureb', 'chagd'):
        m = E.PureBosonicExt(dims[0], dims[1], case['k']) if model == 'pureb' else E.AutodiffCHAREE(dims)
        with torch.no_grad():
            for p in m.parameters():
                p.copy_(torch.tensor(r.normal(size=tuple(p.shape)) * case['scale'], dtype=p.dtype))
        m.set_expectation_op(ref.rand_hermitian(r, D))
        m()
        rho = m.dm_torch.numpy().reshape(D, D)
        ctx.close(rho, rho.conj().T, 1e-12, f'{model}: state Hermitian')
        ctx.close(np.trace(rho), 1, 1e-10, f'{model}: trace one')
        ctx.require(ref.min_eig(rho) > -1e-10, f'{model}: positive semidefinite')
        rho = (rho + rho.conj().T) / 2
        rho = rho / np.trace(rho).real
        if model == 'pureb':
            kp = min(case['kp'], case['k'])
            out = E.is_ABk_symmetric_ext(rho, dims, kp, use_boson=case['boson'])
            ctx.require(bool(out), 'a state with a pure bosonic k-extension passes every k\'-extension test with k\' <= k', f'k={case["k"]} k\'={kp} boson={case["boson"]} scale={case["scale"]}')
            bk = E.get_ABk_symmetric_extension_boundary(rho, dims, kp, use_boson=case['boson'])
            ctx.require(bk >= gm_norm(rho) * (1 - 1e-4) - 1e-6, 'a state with a pure bosonic k-extension lies inside the k\'-extension boundary along its own ray', f'beta={bk} norm={gm_norm(rho)}')
        else:
            ctx.require(ref.min_eig(ref.partial_transpose(rho, dims, [1])) > -1e-10, 'convex-hull model state is PPT')
            kp = 1 + case['kp'] % (3 if D <= 6 else 2)
            out = E.is_ABk_symmetric_ext(rho, dims, kp, use_ppt=case['ppt'], use_boson=case['boson'])
            ctx.require(bool(out), 'a convex-hull (separable) model state passes every extension test', f'k\'={kp} ppt={case["ppt"]} boson={case["boson"]}')
            ctx.require(bool(E.is_ppt(rho, dims)) and bool(E.is_generalized_ppt(rho, dims)) and bool(E.check_reduction_witness(rho, dims)), 'convex-hull model state passes the closed-form criteria')
        return
    # LP over a bag of product states
    rho = make_direction(r, D, 'dm' if case['prng'] % 2 else 'entangled', dims)
    bag = E.CHABoundaryBagging(dims)
    try:
        thr_kw = dict(threshold=3e-3) if case['kp'] % 2 == 0 else {}  # the reset threshold of the iteration is a caller's choice; the returned decomposition is complete either way
        beta, info = bag.solve(rho, maxiter=3 + case['kp'] * 3, return_info=True, seed=case['prng'] % 1000, **thr_kw)
    except Exception as e:  # noqa
        if type(e).__name__ == 'SolverError':
            ctx.inconclusive_case('cvxpy SolverError in CHABoundaryBagging')
            return
        raise
    ketA, ketB, lam, hist = info
    ctx.require(len(lam) == len(ketA) == len(ketB) and len(lam) >= 1, 'CHA: one weight per product state')
    ctx.close(np.linalg.norm(ketA, axis=1), np.ones(len(lam)), 1e-9, 'CHA: local vectors normalised (A)')
    ctx.close(np.linalg.norm(ketB, axis=1), np.ones(len(lam)), 1e-9, 'CHA: local vectors normalised (B)')
    ctx.require(np.all(lam >= -1e-9), 'CHA: weights non-negative')
    ctx.close(lam.sum(), 1, 1e-3, 'CHA: weights sum to one')  # LP solver tolerance (1.3e-4 seen in the thorough tier); weights below zero are masked out by the library
    ctx.close(beta, hist[-1], 0, 'CHA: reported beta is the last history entry')
    prods = [np.kron(a, b) for a, b in zip(ketA, ketB)]
    sig = sum(w * np.outer(v, v.conj()) for w, v in zip(lam, prods))
    ctx.close(sig, ray(rho, beta), 1e-4, 'CHA: sum lambda |ab><ab| = rho(beta)')
    bu = E.get_ppt_boundary(rho, dims)[1]
    ctx.require(beta <= bu * (1 + 1e-4) + 1e-6, 'CHA: beta_CHA <= beta_PPT', f'{beta} vs {bu}')
    hist = np.asarray(hist, dtype=np.float64)
    ctx.label('cha solved')
    # the same object solved again for ANOTHER direction, keeping its current bag of product states (num_init_retry=0): the answer must be about the new direction
    rho2 = make_direction(r, D, 'entangled' if case['prng'] % 2 else 'dm', dims)
    try:
        beta2, info2 = bag.solve(rho2, maxiter=case['kp'] % 3, num_init_retry=0, return_info=True, seed=(case['prng'] + 1) % 1000)
    except Exception as e:  # noqa
        if type(e).__name__ in ('SolverError', 'AssertionError') or (type(e).__name__ == 'TypeError' and 'NoneType' in str(e)):
            # the kept bag may not span the new direction: the LP is infeasible ("num_state might be too small"; a later iteration then meets lambda=None)
            ctx.inconclusive_case('CHABoundaryBagging re-solve without re-initialisation failed')
            return
        raise
    kA2, kB2, lam2, _ = info2
    sig2 = sum(w * np.outer(np.kron(a, b), np.kron(a, b).conj()) for w, a, b in zip(lam2, kA2, kB2))
    ctx.close(sig2, ray(rho2, beta2), 1e-4, 'CHA (object re-used for a second direction): sum lambda |ab><ab| = rho2(beta)')
    ctx.require(beta2 <= E.get_ppt_boundary(rho2, dims)[1] * (1 + 1e-4) + 1e-6, 'CHA (object re-used): beta_CHA <= beta_PPT')
    ctx.label('cha re-used')


# --------------------------------------------------------------------------------------------- ordering of the hierarchy
@st.composite
def _strat_order(draw, tier='quick'):
    dims = draw(st.sampled_from([[2, 2], [2, 3], [3, 3], [3, 3], [3, 2]] if tier == 'quick' else DIMS + [[3, 3]]))
    kmax = 3 if (dims[0] * dims[1] <= 4 or tier == 'thorough') else 2
    calls = list(draw(st.permutations([(k, p, b) for k in range(1, kmax + 1) for p in (False, True) for b in (False, True)])))
    n = draw(st.integers(3, 5) if tier == 'quick' else st.integers(4, 8))
    if draw(st.booleans()):
        # history shape "plain call, then the bosonic call of the same k, ..." (the memoised irrep data is shared between the two)
        k0 = draw(st.integers(2, kmax))
        head = [(k0, draw(st.booleans()), False), (k0, draw(st.booleans()), True)]
        calls = head + [c for c in calls if c not in head]
    return dict(dims=dims, kind=draw(st.sampled_from(['dm', 'entangled', 'entangled', 'hermitian', 'werner', 'isotropic'])), calls=[list(x) for x in calls[:n]], prng=draw(st.integers(0, 2 ** 31)))


def run_order(ctx, case):
    nq = _nq()
    E = nq.entangle
    dims = tuple(case['dims'])
    D = dims[0] * dims[1]
    r = ref.rng(case['prng'])
    analytic = case['kind'] in ('werner', 'isotropic') and dims[0] == dims[1]
    if analytic:
        rho = nq.state.Werner(dims[0], 1.0) if case['kind'] == 'werner' else nq.state.Isotropic(dims[0], 1.0)
    else:
        rho = make_direction(r, D, case['kind'] if case['kind'] not in ('werner', 'isotropic') else 'entangled', dims)
    calls = [tuple(x) for x in case['calls']]
    # the irrep coefficients are memoised per (dimB, k): start every history from a clean memo so that the case is a function of its own call order only
    import numqi.group.symext as gsym
    for nm in dir(gsym):
        fn = getattr(gsym, nm)
        if hasattr(fn, 'cache_clear'):
            fn.cache_clear()
    ctx.note(klass='ordering', desc=[list(dims), case['kind'], [[k, int(p), int(b)] for k, p, b in calls]], nontrivial=any(k >= 2 for k, _, _ in calls),
             labels=[f'dims={list(dims)}', case['kind']])
    b_dm = E.get_density_matrix_boundary(rho)[1]
    b_ppt = E.get_ppt_boundary(rho, dims)[1]
    tol = 1e-4
    ctx.require(b_ppt <= b_dm * (1 + 1e-12), 'beta_PPT <= beta_DM')
    val = {}
    for k, p, b in calls:
        val[(k, p, b)] = float(E.get_ABk_symmetric_extension_boundary(rho, dims, k, use_ppt=p, use_boson=b))
        ctx.tick()
    # order independence: the first call of the history, repeated after all the others, must give the same value
    k0, p0, b0 = calls[0]
    again = float(E.get_ABk_symmetric_extension_boundary(rho, dims, k0, use_ppt=p0, use_boson=b0))
    ctx.close(again, val[calls[0]], tol, 'a boundary does not depend on which other extension problems were solved before', max(1.0, abs(again)))
    boson_before_plain = any(b1 and not b2 and k1 == k2 for i, (k1, _, b1) in enumerate(calls) for (k2, _, b2) in calls[i + 1:])
    if boson_before_plain:
        ctx.label('bosonic call before the plain call of the same k')
    if analytic:
        d = dims[0]
        for (k, p, b), v in val.items():
            if p or b:
                continue
            if case['kind'] == 'werner':
                a_k = (k + d * d - d) / (k * d + d - 1)
                want = float(gm_norm(nq.state.Werner(d, min(1.0, a_k))))
            else:
                a_k = (k * d + d * d - d - k) / (k * (d * d - 1))
                want = float(gm_norm(nq.state.Isotropic(d, min(1.0, a_k))))
            ctx.close(v, want, 2e-4, f'{case["kind"]} direction: k-extension boundary = analytic value (Johnson-Viola)', max(1.0, want))
            ctx.label('analytic boundary compared')
    for (k, p, b), v in val.items():
        ctx.require(math.isfinite(v) and v > 0, 'extension boundary finite and positive', f'{(k, p, b)}: {v}')
        ctx.require(v <= b_dm + tol, 'beta_k-ext <= beta_DM', f'{(k, p, b)}: {v} vs {b_dm}')
        if p:
            ctx.require(v <= b_ppt + tol, 'beta_k-ext+PPT <= beta_PPT', f'{(k, p, b)}: {v} vs {b_ppt}')
        if k == 1 and not p:
            ctx.close(v, b_dm, tol, 'the 1-extension boundary is the state-space boundary')
        if k == 1 and p:
            ctx.close(v, b_ppt, tol, 'the 1-extension+PPT boundary is the PPT boundary')
        if (k, False, b) in val and p:
            ctx.require(v <= val[(k, False, b)] + tol, 'adding the PPT constraint does not enlarge the set', f'{(k, p, b)}')
        if (k, p, False) in val and b:
            ctx.require(v <= val[(k, p, False)] + tol, 'bosonic extension implies symmetric extension', f'{(k, p, b)}: {v} vs {val[(k, p, False)]}')
        if (k + 1, p, b) in val:
            ctx.require(val[(k + 1, p, b)] <= v + tol, 'beta_(k+1)-ext <= beta_k-ext', f'{(k, p, b)}: {val[(k + 1, p, b)]} vs {v}')
        # the reported boundary is a threshold of the feasibility test along the same ray
        if k >= 2 and (k + int(p) + int(b) + case['prng']) % 3 == 0:
            inside = ray(rho, v * (1 - 5e-3))
            if ref.min_eig(inside) > 1e-9:
                ctx.require(bool(E.is_ABk_symmetric_ext(inside, dims, k, use_ppt=p, use_boson=b)), 'a state inside the k-extension boundary passes the k-extension test', f'{(k, p, b)}')
            outside = ray(rho, v * (1 + 5e-2))  # the feasibility SDP accepts states up to ~1% beyond the boundary (solver slack, 'solution may be inaccurate')
            if v < b_dm * (1 - 7e-2) and ref.min_eig(outside) > 1e-9:
                import warnings
                with warnings.catch_warnings(record=True) as wlist:
                    warnings.simplefilter('always')
                    verdict = bool(E.is_ABk_symmetric_ext(outside, dims, k, use_ppt=p, use_boson=b))
                if any('inaccurate' in str(w.message).lower() for w in wlist):
                    # the library counts "solver stopped without a certificate" as feasible (permissive side, never flags a separable state); such a verdict
                    # says nothing about the boundary (seen for (3,3), k=3 bosonic: SCS hits its iteration cap 5 % outside, while 2 % outside is refused)
                    ctx.inconclusive_case('feasibility SDP reported an inaccurate solution')
                else:
                    ctx.require(not verdict, 'a state outside the k-extension boundary fails the k-extension test', f'{(k, p, b)}')
                    ctx.label('strict interior boundary')


SUBCHECKS = [
    SubCheck('boundaries', run_boundary, strategy=_strat_bd, examples=(1200, 8000), shards=(3, 16), floors={'batch=3': 0.15, 'dm_norm given': 0.3}),
    SubCheck('inner_models', run_inner, strategy=_strat_inner, examples=(14, 60), shards=(6, 16), shrink=False),
    SubCheck('ordering', run_order, strategy=_strat_order, examples=(6, 24), shards=(6, 16), shrink=False),
]
