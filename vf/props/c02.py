"""C02 - trivializations are locally onto: the differential has full rank."""
import numpy as np
from hypothesis import strategies as st

from ..core import SubCheck, HarnessError
from .. import ref
from .. import manifold_table as mt

PROPERTY = 'C02'
RULE = ('finite lattice of configurations (map row x option x field x dim 2..5 x rank 1..dim; every configuration with dim<=3 plus a seed-dependent third of the '
        'rest in quick, all in thorough) x K=5 generic points theta ~ N(0,s^2), s in {0.3,1}. Oracle: torch.autograd.functional.jacobian of the float64 map (complex '
        'output as real pairs), singular values, numerical rank #{sigma_i > 1e-9 sigma_1}; expected = textbook manifold dimension (vf/manifold_table.py). Because rank is '
        'lower semicontinuous and bounded by the manifold dimension, one point of full rank decides the configuration; a configuration is a violation iff all K points are '
        'rank deficient (or some point exceeds the dimension with a clear gap, contradicting C01). Every configuration is non-trivial and distinct.')
ASSUMPTIONS = ['generic rank at sampled points only: a map whose rank drops on a large non-open set would pass',
               'relative singular-value gap sigma_m/sigma_{m+1} >= 1e5 required to call a rank (observed >= 1e10); otherwise the point is counted inconclusive',
               'class-only so-exp / so-cayley Stiefel slices: expected dimension 2dr-r^2 (complex, r<d), d^2-1 (r=d), dr-r(r+1)/2 (real)']

_rows = None


def rows():
    global _rows
    if _rows is None:
        _rows = {r.name: r for r in mt.build_rows()}
    return _rows


def all_configs(max_dim):
    out = []
    for name, R in rows().items():
        lo, hi = 2, min(R.dims[1], max_dim)
        for oi in range(len(R.opts)):
            for f in R.fields:
                for d in range(lo, hi + 1):
                    ranks = range(1, d + 1) if R.needs_rank else [d]
                    for r in ranks:
                        out.append(dict(row=name, opt=oi, field=f, dim=d, rank=r))
    # class-only Stiefel slices of SO/SU
    for meth in ('so-exp', 'so-cayley'):
        for f in ('real', 'complex'):
            for d in range(2, min(4, max_dim) + 1):
                for r in range(1, d + 1):
                    out.append(dict(row='stiefel_' + meth, opt=0, field=f, dim=d, rank=r))
    return out


def cases(tier):
    import os
    try:
        s = int(os.environ.get('VERIF_SEED', '1') or 1)
    except ValueError:
        s = 1
    cfgs = all_configs(5 if tier == 'quick' else 6)
    out = []
    for i, c in enumerate(cfgs):
        if tier == 'quick' and c['dim'] > 3 and (i + s) % 3 != 0:
            continue
        c = dict(c, prng=s * 2654435761 % (2 ** 31) + i)
        out.append(c)
        if tier == 'thorough':
            # three more independent sets of generic points per configuration (other scales through other draws)
            for rep in (1, 2, 3):
                out.append(dict(c, prng=(c['prng'] * 7919 + rep * 104729) % (2 ** 31)))
    return out


def _jac_rank(f, theta):
    import torch
    t = torch.tensor(theta, dtype=torch.float64)

    def g(x):
        y = f(x)
        if torch.is_complex(y):
            y = torch.view_as_real(y)
        return y.reshape(-1)
    J = torch.autograd.functional.jacobian(g, t).numpy()
    sv = np.linalg.svd(J, compute_uv=False)
    return sv


def run_cfg(ctx, case):
    import torch
    import numqi
    name, field, dim, rank = case['row'], case['field'], case['dim'], case['rank']
    ctx.note(klass=name, desc=[name, case['opt'], field, dim, rank], nontrivial=True, labels=[name, field])
    if name.startswith('stiefel_so-'):
        meth = name[len('stiefel_'):]
        n = dim * (dim - 1) // 2 if field == 'real' else dim * dim - 1
        if field == 'real':
            # real slice: first r columns of SO(d); for r=d the last column is determined, dimension d(d-1)/2
            m = dim * rank - rank * (rank + 1) // 2
        else:
            m = (2 * dim * rank - rank * rank) if rank < dim else dim * dim - 1
        fn = (lambda x: numqi.manifold.to_special_orthogonal_exp(x, dim)[..., :rank]) if meth == 'so-exp' else \
             (lambda x: numqi.manifold.to_special_orthogonal_cayley(x, dim)[..., :rank])
        mod = numqi.manifold.Stiefel(dim, rank, method=meth, dtype=(torch.float64 if field == 'real' else torch.complex128))
        if mod.theta.shape[-1] != n:
            ctx.require(False, f'{name}: parameter count', f'{mod.theta.shape[-1]} vs {n}')
        min_norm = False
    else:
        R = rows()[name]
        opt = R.opts[case['opt']]
        n = R.nparam(field, dim, rank, opt)
        m = R.dimension(field, dim, rank, opt)
        fn = lambda x: R.call(x, dim, rank, field, opt)
        min_norm = R.min_norm
    if n == 0:
        ctx.label('no parameters')
        return
    if m > n:
        raise HarnessError(f'{name}: expected dimension {m} exceeds parameter count {n}')
    r = ref.rng(case['prng'])
    best = -1
    gaps = []
    for k in range(5):
        s = 0.3 if k % 2 == 0 else 1.0
        theta = r.normal(size=n) * s
        if min_norm and np.linalg.norm(theta) < 1e-3:
            theta = theta + 0.1
        sv = _jac_rank(fn, theta)
        ctx.finite(sv, f'{name}: finite Jacobian')
        if sv[0] == 0:
            rk = 0
            gap = np.inf
        else:
            rk = int((sv > 1e-9 * sv[0]).sum())
            gap = (sv[rk - 1] / sv[rk]) if rk < len(sv) and sv[rk] > 0 else np.inf
        ctx.tick()
        if rk > m and gap >= 1e5:
            ctx.require(False, f'{name}: differential rank exceeds the manifold dimension (contradicts C01)', f'rank {rk} > {m}, theta scale {s}')
        if gap < 1e5:
            ctx.inconclusive_case('no clear singular value gap')
            continue
        gaps.append(float(min(gap, 1e300)))
        best = max(best, rk)
        if rk == m:
            break
    if gaps:
        key = f'{name}: log10 min gap'
    ctx.require(best == m, f'{name}: generic rank of the differential = manifold dimension', f'best rank {best} of {m} expected (n={n}) over 5 points; dim={dim} rank={rank} {field}')
    if m < n:
        ctx.label('redundant parametrisation (n>m)')
    else:
        ctx.label('minimal chart (n=m)')
    if m == 0:
        ctx.label('zero-dimensional')


SUBCHECKS = [
    SubCheck('jacobian_rank', run_cfg, cases=cases, shards=(12, 16), doc='autograd Jacobian rank at generic points for every configuration of the lattice'),
]
