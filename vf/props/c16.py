"""C16 - Gell-Mann coordinates are an orthogonal-basis isomorphism."""
import itertools
import functools
import numpy as np
from hypothesis import strategies as st

from ..core import SubCheck
from .. import ref

PROPERTY = 'C16'
RULE = ('enumeration of the basis for d=2..8 x tensor_n in {1,2} x with_I (Hermitian, Tr(GiGj)=2^n delta, documented order, Kronecker order); '
        'hypothesis: d 2..8, matrix kind (complex non-Hermitian/Hermitian/real/diagonal/zero/density), batch shape (),(k,),(k,l), backend '
        'numpy/torch, precision 32/64; oracle: explicit expansion v_i = Tr(G_i A)/2 and A = sum v_i G_i with the textbook basis built in vf/ref.py. '
        'Non-trivial = d>=5 or non-Hermitian or batch ndim>=2 or float32 or torch; distinct = (sub, d, kind, batch shape, backend, precision).'
        ' Inputs also in other memory layouts (numpy: Fortran/strided/read-only; torch: non-contiguous tensors); second-call clause for all_gellmann_matrix / gellmann_matrix.'
        ' Norm for torch input as handed over; states at distance 1e-4..1e-10 from the maximally mixed state (relative accuracy).')
ASSUMPTIONS = ['float64 identities compared at 1e-10*max(1,|A|), float32 inputs at 2e-4*max(1,|A|)',
               'torch results for float32 inputs may be promoted to complex128 (not a defect, DESIGN section 5)']


def _gm():
    import numqi
    return numqi.gellmann


def run_basis(ctx, case):
    gm = _gm()
    d, n, with_I = case['d'], case['tensor_n'], case['with_I']
    ctx.note(klass=f'tensor_n={n}', desc=['basis', d, n, with_I], nontrivial=True)
    ctx.fresh(lambda: gm.all_gellmann_matrix(d, tensor_n=n, with_I=with_I), 'all_gellmann_matrix: a second call is not affected by editing the array returned by the first')
    G = gm.all_gellmann_matrix(d, tensor_n=n, with_I=with_I)
    D = d ** n
    cnt = d ** (2 * n) - (0 if with_I else 1)
    ctx.require(G.shape == (cnt, D, D), 'basis shape', f'{G.shape}')
    B = ref.gellmann_basis(d)
    if n == 1:
        want = B
    else:
        want = np.stack([functools.reduce(np.kron, [B[y] for y in x]) for x in itertools.product(range(d * d), repeat=n)])
    want = want[:cnt]
    ctx.close(G, want, 1e-12, 'basis equals textbook construction in the documented order')
    ctx.close(G, G.conj().transpose(0, 2, 1), 1e-12, 'basis Hermitian')
    gram = np.einsum('aij,bji->ab', G, G)
    ctx.close(gram, (2 ** n) * np.eye(cnt), 1e-10, 'Tr(Gi Gj) = 2^n delta_ij')
    if with_I:
        ctx.close(G[-1], np.eye(D) * np.sqrt(2 / d) ** n, 1e-12, 'last element is the scaled identity')
    for k in range(cnt - (1 if with_I else 0)):
        pass
    tr = np.trace(G[:d ** (2 * n) - 1], axis1=1, axis2=2)
    ctx.small(tr, 1e-12, 'non-identity elements traceless')
    # single-element constructor
    if n == 1:
        for i in range(d):
            for j in range(d):
                ctx.fresh(lambda: gm.gellmann_matrix(i, j, d), 'gellmann_matrix: a second call is not affected by editing the array returned by the first')
                m = gm.gellmann_matrix(i, j, d)
                ctx.close(np.trace(m @ m), 2, 1e-12, 'gellmann_matrix normalised')
                ctx.close(m, m.conj().T, 1e-12, 'gellmann_matrix Hermitian')


def cases_basis(tier):
    out = []
    for d in range(2, 9):
        for n in (1, 2):
            if n == 2 and d > (3 if tier == 'quick' else 4):
                continue
            for w in (True, False):
                out.append(dict(d=d, tensor_n=n, with_I=w))
    return out


_SHAPES = [[], [1], [3], [2, 3], [1, 1], [2, 1, 2]]


@st.composite
def _strat_as(draw, tier='quick'):
    return dict(d=draw(st.integers(2, 8)), kind=draw(st.sampled_from(['complex', 'hermitian', 'real', 'diagonal', 'zero', 'dm', 'onehot'])),
                shape=draw(st.sampled_from(_SHAPES)), backend=draw(st.sampled_from(['numpy', 'torch'])),
                prec=draw(st.sampled_from([64, 64, 32])), scale=draw(st.sampled_from([1.0, 1e-3, 100.0])),
                prng=draw(st.integers(0, 2 ** 31)))


def _make_matrix(r, kind, shape, d, scale):
    full = tuple(shape) + (d, d)
    if kind == 'complex':
        A = ref.rand_complex(r, *full)
    elif kind == 'hermitian':
        A = ref.rand_complex(r, *full)
        A = A + A.conj().swapaxes(-1, -2)
    elif kind == 'real':
        A = r.normal(size=full) + 0j
    elif kind == 'diagonal':
        A = np.zeros(full, dtype=np.complex128)
        idx = np.arange(d)
        A[..., idx, idx] = ref.rand_complex(r, *(tuple(shape) + (d,)))
    elif kind == 'zero':
        A = np.zeros(full, dtype=np.complex128)
    elif kind == 'onehot':
        A = np.zeros(full, dtype=np.complex128)
        A[..., int(r.integers(0, d)), int(r.integers(0, d))] = 1j
    else:  # dm
        a = ref.rand_complex(r, *(tuple(shape) + (d, d)))
        A = a @ a.conj().swapaxes(-1, -2)
        A = A / np.trace(A, axis1=-2, axis2=-1)[..., None, None]
        return A
    return A * scale


def _cast(A, backend, prec, real=False, layout='C'):
    import torch
    if real:
        A = np.asarray(A).real.astype(np.float32 if prec == 32 else np.float64)
    else:
        A = np.asarray(A).astype(np.complex64 if prec == 32 else np.complex128)
    if backend == 'torch':
        if layout in ('F', 'strided') and A.ndim >= 1 and A.size:
            return torch.from_numpy(ref.with_layout(A, layout))  # keeps the strides: a non-contiguous tensor with the same values
        return torch.tensor(A)
    return ref.with_layout(A, layout)


def run_as(ctx, case):
    gm = _gm()
    d, kind, shape, backend, prec, scale = case['d'], case['kind'], tuple(case['shape']), case['backend'], case['prec'], case['scale']
    nt = d >= 5 or kind in ('complex', 'real', 'diagonal', 'onehot') or len(shape) >= 2 or prec == 32 or backend == 'torch'
    ctx.note(klass=f'{backend}/{prec}', desc=[d, kind, list(shape), backend, prec], nontrivial=nt,
             labels=[backend, f'prec{prec}', f'ndim={len(shape)}', kind])
    r = ref.rng(case['prng'])
    A = _make_matrix(r, kind, shape, d, scale)
    tol = (1e-10 if prec == 64 else 2e-4)
    layout = ref.LAYOUTS[(case['prng'] // 7) % len(ref.LAYOUTS)]
    ctx.label('layout=' + layout)
    Ain = _cast(A, backend, prec, real=(kind == 'real' and case['prng'] % 2 == 0), layout=layout)
    A = np.asarray(Ain.numpy() if backend == 'torch' else Ain).astype(np.complex128)  # what the library actually received
    sc = max(1.0, float(np.abs(A).max()))
    B = ref.gellmann_basis(d)
    v = gm.matrix_to_gellmann_basis(Ain)
    ctx.close(Ain, A, 0 if prec == 64 else 1e-30, 'analysis does not modify its input')
    ctx.require(tuple(v.shape) == shape + (d * d,), 'coefficient vector shape', f'{tuple(v.shape)}')
    v_ref = np.einsum('aij,...ji->...a', B, A) / 2
    ctx.close(v, v_ref, tol, 'analysis = Tr(G_i A)/2', sc)
    M = gm.gellmann_basis_to_matrix(v)
    ctx.require(tuple(M.shape) == shape + (d, d), 'matrix shape', f'{tuple(M.shape)}')
    ctx.close(M, A, tol, 'synthesis(analysis(A)) = A', sc)
    # synthesis on an arbitrary coefficient vector, explicit linear combination
    w = ref.rand_complex(r, *(shape + (d * d,))) * scale
    if kind in ('hermitian', 'dm'):
        w = w.real + 0j
    win = _cast(w, backend, prec, real=(kind in ('hermitian', 'dm')), layout=layout)
    w = np.asarray(win.numpy() if backend == 'torch' else win).astype(np.complex128)
    sw = max(1.0, float(np.abs(w).max()))
    Mw = gm.gellmann_basis_to_matrix(win)
    ctx.close(win, w, 0 if prec == 64 else 1e-30, 'synthesis does not modify its input')
    ctx.close(Mw, np.einsum('...a,aij->...ij', w, B), tol, 'synthesis = sum v_i G_i', sw)
    w2 = gm.matrix_to_gellmann_basis(Mw)
    ctx.close(w2, w, tol, 'vector -> matrix -> vector = id', sw)


@st.composite
def _strat_dm(draw, tier='quick'):
    return dict(d=draw(st.integers(2, 8)), rank=draw(st.integers(1, 8)), shape=draw(st.sampled_from(_SHAPES)),
                backend=draw(st.sampled_from(['numpy', 'torch'])), prng=draw(st.integers(0, 2 ** 31)))


def run_dm(ctx, case):
    import torch
    gm = _gm()
    d, shape, backend = case['d'], tuple(case['shape']), case['backend']
    rank = min(case['rank'], d)
    ctx.note(klass=backend, desc=['dm', d, rank == d, list(shape), backend], nontrivial=(d >= 5 or len(shape) >= 2 or backend == 'torch'),
             labels=[backend, f'ndim={len(shape)}'])
    r = ref.rng(case['prng'])
    a = ref.rand_complex(r, *(shape + (d, rank)))
    rho = a @ a.conj().swapaxes(-1, -2)
    rho = rho / np.trace(rho, axis1=-2, axis2=-1)[..., None, None]
    B = ref.gellmann_basis(d)
    b_ref = (np.einsum('aij,...ji->...a', B, rho) / 2).real
    layout = ref.LAYOUTS[(case['prng'] // 7) % len(ref.LAYOUTS)]
    ctx.label('layout=' + layout)
    rin = _cast(rho, backend, 64, layout=layout)
    b = gm.dm_to_gellmann_basis(rin)
    ctx.require(tuple(b.shape) == shape + (d * d - 1,), 'Bloch vector shape', f'{tuple(b.shape)}')
    ctx.close(b, b_ref[..., :-1], 1e-10, 'Bloch vector = Tr(G_i rho)/2')
    bb = np.asarray(b.numpy() if backend == 'torch' else b)
    ctx.require(not np.iscomplexobj(bb), 'Bloch vector real')
    b1 = gm.dm_to_gellmann_basis(rin, with_rho0=True)
    ctx.require(tuple(b1.shape) == shape + (d * d,), 'with_rho0 shape')
    ctx.close(b1, b_ref, 1e-10, 'with_rho0 vector')
    ctx.close(np.asarray(b1.numpy() if backend == 'torch' else b1)[..., -1], np.full(shape, 1 / np.sqrt(2 * d)), 1e-10, 'identity coefficient = 1/sqrt(2d)')
    rho2 = gm.gellmann_basis_to_dm(b)
    ctx.require(tuple(rho2.shape) == shape + (d, d), 'dm shape')
    ctx.close(rho2, rho, 1e-10, 'Bloch vector round trip')
    ctx.close(rin, rho, 0, 'Bloch-vector routines do not modify the state they are given')
    nrm = gm.dm_to_gellmann_norm(ref.with_layout(rho, layout))
    ctx.close(gm.dm_to_gellmann_norm(rin), np.linalg.norm(b_ref[..., :-1], axis=-1), 1e-10, 'Gell-Mann norm = |Bloch vector| (input as handed over: numpy or torch)')
    ctx.close(nrm, np.linalg.norm(b_ref[..., :-1], axis=-1), 1e-10, 'Gell-Mann norm = |Bloch vector|')
    # states very close to the maximally mixed state: the norm is that of the (tiny) traceless part, to relative accuracy
    eps_ = 10.0 ** -(4 + case['prng'] % 7)
    Hh = ref.rand_hermitian(r, d)
    Hh = Hh - np.trace(Hh).real / d * np.eye(d)
    near = np.eye(d) / d + eps_ * Hh
    want_n = eps_ * float(np.sqrt((np.abs(Hh) ** 2).sum() / 2))
    # I/d + eps H itself is only representable to 1.1e-16 absolute: the relative accuracy that can be asked for is ~1e-15/eps
    ctx.close(gm.dm_to_gellmann_norm(_cast(near, backend, 64)), want_n, max(1e-6, 1e-14 / eps_), 'Gell-Mann norm of I/d + eps H = eps |H|_F / sqrt 2 (relative accuracy near the maximally mixed state)', want_n)
    ctx.close(gm.dm_to_gellmann_norm(_cast(np.eye(d) / d, backend, 64)), 0, 1e-15, 'Gell-Mann norm of the maximally mixed state = 0')
    # unnormalised Hermitian input: the norm ignores the trace part
    if len(shape) == 0:
        s = ref.rand_dm(r, d, max(1, rank - 1) if rank > 1 else d)
        sin = torch.tensor(s) if backend == 'torch' else s
        bs = (np.einsum('aij,ji->a', B, s) / 2).real[:-1]
        d2 = gm.get_density_matrix_distance2(rin, sin)
        ctx.close(float(d2), float(np.sum((b_ref[:-1] - bs) ** 2)), 1e-10, 'distance2 = |b - b\'|^2')
        ctx.close(float(gm.get_density_matrix_distance2(sin, rin)), float(d2), 1e-12, 'distance2 symmetric')


SUBCHECKS = [
    SubCheck('basis', run_basis, cases=cases_basis, shards=(4, 8)),
    SubCheck('analysis_synthesis', run_as, strategy=_strat_as, examples=(1500, 6000), shards=(2, 16),
             floors={'torch': 0.3, 'prec32': 0.2, 'ndim=2': 0.1}),
    SubCheck('dm', run_dm, strategy=_strat_dm, examples=(1000, 4000), shards=(2, 16), floors={'torch': 0.3}),
]
