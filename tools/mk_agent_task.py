#!/venv/bin/python
"""tools/mk_agent_task.py ROUND Cxx [Cxx ...]  - create a scratch worktree /tmp/w<ROUND>-Cxx of /repo (HEAD) and write its TASK.md

The task text contains ONLY: the setup of the worktree, the text of one property (from properties.jsonl) and one-paragraph summaries of the
changes sub-agents produced in earlier rounds (taken from the meta.json they wrote themselves). Nothing else from /verif is given to the agent.
"""
import os
import sys
import json
import glob
import shutil
import subprocess

VERIF = os.path.dirname(os.path.dirname(os.path.abspath(__file__)))
REPO = '/repo'

TEMPLATE = """SETUP
- Your workspace is a scratch git worktree of the open-source Python library husisy/numqi at {wt} (library source under python/numqi, tests under tests/). Work ONLY inside {wt}. Never read or modify /repo or /verif.
- Run Python as: cd {wt} && PYTHONPATH={wt}/python /venv/bin/python ...   (check numqi.__file__ points into {wt}). Every shell command prints a harmless conda WARNING line; ignore it.
- Run the relevant existing tests as: cd {wt} && PYTHONPATH={wt}/python /venv/bin/python -m pytest -q -p no:cacheprovider -x tests/<relevant files>   (the full suite takes 35+ minutes and the machine is shared - run only the test files that touch the code you change, plus any test that imports it; find them with grep; never run the whole suite).

TASK
Produce THREE independent, different changes (mutations) to the library source (python/numqi only; never edit tests) each of which BREAKS the property stated below, while the package still imports and ALL existing tests that exercise the changed code still pass. The changes must be realistic bugs a maintainer could plausibly introduce (a refactor slip, an off-by-one, a wrong index/axis/sign, a dropped special case, a stale cache, a wrong branch condition, a "performance" shortcut, a changed default), NOT ones that ordinary use or the existing tests would expose at once. This is round {rnd} of this exercise: the obvious places have been used up (see the long list below, read it first). Look for what is left: code paths selected by optional or rarely used arguments, the torch branch vs the numpy branch, float32/complex64 or integer inputs, sizes at the edge of the documented domain (smallest and largest), inputs with special structure (degenerate spectra, repeated entries, zeros, already-normalised or unnormalised), interactions between two public functions (output of one fed to another), behaviour that depends on what was called before in the same process (caches, module-level state, objects reused after being reconfigured), and helper functions shared by several public functions. Read the tests first so you know what they pin down, and aim for what they do not.

DELIVERABLES (for change k = 1, 2, 3) in {wt}/out/k/ :
- patch.diff : output of `git diff` for the source change only (must apply with `git apply` to a clean checkout of the same commit).
- demo.py : a small standalone program that exits 0 and prints OK when the property holds (i.e. on the unmodified source) and exits 1 printing what is violated when your change is applied. It must be deterministic and use only the public behaviour named under "Observable through".
- meta.json : {{"property": "{pid}", "summary": "<what was changed>", "needs_to_manifest": "<the specific input / sequence / configuration needed>", "tests_run": "<pytest command(s) you ran and their result with the change applied>"}}
VERIFY YOURSELF before finishing, for each change: (a) with the change applied demo.py exits 1; (b) with the change reverted (git stash or git checkout) demo.py exits 0; (c) the relevant existing tests pass with the change applied. Finally leave the worktree source clean (git checkout -- python) with only the out/ directory added. Report in your final message, per change: the file/function changed, one-line description, what is needed to trigger it, and the test files you ran.

PROPERTY {pid}
{title}. {statement}
Domain: {domain}
Observable through: {observe}
Relevant source files: {files}

ALREADY TRIED IN EARLIER ROUNDS (do NOT repeat these or trivial variations of them; aim at different functions, different code paths, or different trigger conditions):
{tried}
"""


def main():
    rnd = sys.argv[1]
    props = {}
    for line in open(os.path.join(VERIF, 'properties.jsonl')):
        d = json.loads(line)
        props[d['id']] = d
    os.makedirs('/root/agent_tasks', exist_ok=True)
    for pid in sys.argv[2:]:
        p = props[pid]
        wt = f'/tmp/w{rnd}-{pid}'
        if os.path.exists(wt):
            subprocess.run(['git', '-C', REPO, 'worktree', 'remove', '--force', wt])
        subprocess.run(['git', '-C', REPO, 'worktree', 'add', '--detach', wt, 'HEAD'], check=True, capture_output=True)
        shutil.copy(os.path.join(REPO, 'python/numqi/_version.py'), os.path.join(wt, 'python/numqi/_version.py'))  # gitignored, needed to import
        tried = []
        for meta in sorted(glob.glob(os.path.join(VERIF, 'seeded', pid + '-*', 'meta.json'))):
            m = json.load(open(meta))
            s = ' '.join(str(m.get('summary', '')).split())
            n = ' '.join(str(m.get('needs_to_manifest', '')).split())
            tried.append(f'- {s[:420]} [trigger: {n[:200]}]')
        text = TEMPLATE.format(rnd=rnd, wt=wt, pid=pid, title=p['title'], statement=p['statement'], domain=p['quantifier']['text'],
                               observe='; '.join(p['anchors']['observe_at']), files=', '.join(p['anchors']['files']), tried='\n'.join(tried) or '- (none)')
        open(os.path.join(wt, 'TASK.md'), 'w').write(text)
        open(f'/root/agent_tasks/{pid}_r{rnd}.md', 'w').write(text)
        print('prepared', wt, len(tried), 'earlier changes listed')


if __name__ == '__main__':
    main()
