#!/venv/bin/python
"""Confirm a sub-agent's seeded change in its scratch worktree and import it into /verif/seeded/<Cxx>-<k>/.

  tools/confirm_seeded.py Cxx [--wt /tmp/wt-Cxx] [--tests "tests/a.py tests/b.py"]

For every /tmp/wt-Cxx/out/<k>/: (a) clean tree: demo.py exits 0; (b) patch applied: demo.py exits != 0; (c) patch applied: the test files
named in meta.json (or --tests) pass; then revert. Only confirmed changes are imported (patch.diff, demo.py, meta.json + what was run).
"""
import os
import re
import sys
import json
import shutil
import argparse
import subprocess

VERIF = os.path.dirname(os.path.dirname(os.path.abspath(__file__)))


def sh(cmd, cwd, env=None, timeout=3600):
    r = subprocess.run(cmd, cwd=cwd, env=env, shell=isinstance(cmd, str), capture_output=True, text=True, timeout=timeout)
    return r.returncode, (r.stdout + r.stderr)


def main():
    ap = argparse.ArgumentParser()
    ap.add_argument('prop')
    ap.add_argument('--wt', default=None)
    ap.add_argument('--tests', default=None)
    ap.add_argument('-k', default=None)
    ap.add_argument('--tag', default='', help='inserted into the destination name: seeded/<Cxx>-<tag><k>')
    args = ap.parse_args()
    prop = args.prop.upper()
    wt = args.wt or f'/tmp/wt-{prop}'
    env = dict(os.environ, PYTHONPATH=os.path.join(wt, 'python'), PYTHONHASHSEED='0')
    for k in sorted(os.listdir(os.path.join(wt, 'out'))):
        d = os.path.join(wt, 'out', k)
        if not os.path.exists(os.path.join(d, 'patch.diff')):
            continue
        meta = json.load(open(os.path.join(d, 'meta.json')))
        sh('git checkout -- python', wt)
        rc0, out0 = sh(['/venv/bin/python', os.path.join(d, 'demo.py')], wt, env)
        rc, out = sh(['git', 'apply', os.path.join(d, 'patch.diff')], wt)
        if rc != 0:
            print(f'{prop}-{k}: patch does not apply: {out[-300:]}')
            continue
        rc1, out1 = sh(['/venv/bin/python', os.path.join(d, 'demo.py')], wt, env)
        meta.setdefault('tests_run', '')
        tests = args.tests or ' '.join(sorted(set(re.findall(r'tests/[\w/]+\.py', json.dumps(meta)))))
        rct, outt = (0, 'no tests named')
        if tests:
            desel = ' '.join('--deselect ' + x for x in [
                'tests/test_entangle/test_entangle_ppt.py::test_cvx_relative_entropy_entanglement_random',
                'tests/test_entangle/test_entangle_eof.py::test_Monogamy_of_entanglement',
                'tests/test_entangle/test_entangle_cha.py::test_convex_hull_approximation_iterative'])  # flaky / always_fail in BASELINE.json
            kexpr = f' -k "{args.k}"' if args.k else ''
            rct, outt = sh(f'/venv/bin/python -m pytest -q -p no:cacheprovider -x {desel}{kexpr} {tests}', wt, env)
        sh('git checkout -- python', wt)
        ok = (rc0 == 0 and rc1 != 0 and rct == 0)
        tail = [l for l in outt.strip().splitlines() if 'passed' in l or 'failed' in l or 'error' in l][-1:]
        print(f'{prop}-{k}: demo clean exit={rc0}, demo patched exit={rc1}, tests[{tests}] exit={rct} {tail} -> {"CONFIRMED" if ok else "REJECTED"}')
        if not ok:
            print(out0[-400:], out1[-400:], outt[-600:])
            continue
        dst = os.path.join(VERIF, 'seeded', f'{prop}-{args.tag}{k}')
        os.makedirs(dst, exist_ok=True)
        shutil.copy(os.path.join(d, 'patch.diff'), dst)
        shutil.copy(os.path.join(d, 'demo.py'), dst)
        meta['property'] = prop
        meta['confirmed'] = dict(demo_clean_exit=rc0, demo_patched_exit=rc1, demo_patched_output=out1.strip().splitlines()[-3:],
                                 tests=tests, tests_exit=rct, tests_summary=tail,
                                 how='tools/confirm_seeded.py in the sub-agent scratch worktree (clean -> apply -> demo, tests -> revert)')
        json.dump(meta, open(os.path.join(dst, 'meta.json'), 'w'), indent=1)


if __name__ == '__main__':
    main()
