#!/venv/bin/python
"""tools/killmatrix_md.py LOG [LOG...] > table.md : turn the output of `tools/mutants.py all` into the markdown kill matrix of DESIGN.md section 12"""
import os
import re
import sys
import json

VERIF = os.path.dirname(os.path.dirname(os.path.abspath(__file__)))
rows = {}
for log in sys.argv[1:]:
    for line in open(log):
        m = re.match(r'(KILLED|SURVIVED|HARNESS-ERROR|PATCH-FAILED)\s+(C\d+)\s+(\S+)\s+(\S*)s\s*(.*)', line)
        if not m:
            continue
        status, prop, path, wall, keys = m.groups()
        rows[(prop, path)] = (status, wall, keys)

print('| property | change | origin | needs to manifest / what it does | result | first detecting sub-check and clause |')
print('|---|---|---|---|---|---|')
for (prop, path), (status, wall, keys) in sorted(rows.items()):
    name = os.path.basename(os.path.dirname(path)) if path.startswith('seeded') else os.path.basename(path).replace('.patch', '')
    origin = 'sub-agent' if path.startswith('seeded') else ('revert of fix' if 'revert-fix' in path else ('negative control' if 'negctl' in path else 'own'))
    what = ''
    if path.startswith('seeded'):
        try:
            meta = json.load(open(os.path.join(VERIF, os.path.dirname(path), 'meta.json')))
            what = (meta.get('needs_to_manifest') or meta.get('summary') or '')
        except Exception:
            pass
    what = re.sub(r'\s+', ' ', what)[:170].replace('|', '/')
    first = ''
    m = re.match(r'key=([^|]+)\|([^|]+)\|(.*?)( detail=.*)?$', keys.split('; ')[0]) if keys else None
    if m:
        first = f'{m.group(1)}: {m.group(3)[:90]}'.replace('|', '/')
    res = {'KILLED': 'caught', 'SURVIVED': 'survives (expected)' if origin == 'negative control' else 'MISSED'}.get(status, status)
    print(f'| {prop} | {name} | {origin} | {what} | {res} | {first} |')
n = len(rows)
k = sum(1 for v in rows.values() if v[0] == 'KILLED')
neg = sum(1 for (p, path) in rows if 'negctl' in path)
print(f'\n{k} of {n - neg} breaking changes caught; {neg} negative controls, all surviving: {all(rows[key][0] == "SURVIVED" for key in rows if "negctl" in key[1])}')
