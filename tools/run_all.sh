#!/bin/bash
# tools/run_all.sh [quick|thorough] [Cxx ...]  - run the registered command of every (or the given) property, print one summary line each
tier=${1:-quick}; shift
props=${@:-C01 C02 C03 C04 C05 C06 C07 C08 C09 C10 C11 C12 C13 C14 C15 C16 C17 C18 C19 C20}
cd "$(dirname "$0")/.."
for p in $props; do
  s=$(date +%s)
  out=$(PYTHONHASHSEED=0 PYTHONPATH=$(pwd) /venv/bin/python -m vf.check $p --tier $tier 2>&1 | grep -v conda | grep -E "^OK|VIOLATION|violated|HARNESS|KNOWN" | cut -c1-300)
  e=$(date +%s)
  echo "[$((e-s))s] $p: $out"
done
