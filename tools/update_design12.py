#!/venv/bin/python
"""tools/update_design12.py LOG [LOG ...] : regenerate the full kill-matrix table at the end of DESIGN.md section 12 from the given logs"""
import os
import re
import sys
import subprocess

VERIF = os.path.dirname(os.path.dirname(os.path.abspath(__file__)))
logs = sys.argv[1:]
table = subprocess.run([os.path.join(VERIF, 'tools', 'killmatrix_md.py')] + logs, capture_output=True, text=True, cwd=VERIF).stdout
p = os.path.join(VERIF, 'DESIGN.md')
s = open(p).read()
marker = '**Full table**'
i = s.index(marker)
j = s.index('\n', i)
head = s[:j + 1]
# keep the marker line, replace everything after it up to the end of the file (section 12 is the last section)
new = head + '\n' + table
open(p, 'w').write(new)
m = re.search(r'(\d+) of (\d+) breaking changes caught; (\d+) negative controls', table)
print(m.group(0) if m else 'summary line not found')
print('sub-agent rows:', table.count('| sub-agent |'))
