#!/venv/bin/python
"""tools/mkregress.py Cxx SUB NAME 'JSON-case' ['what it witnesses']  -> regress/Cxx/NAME.json (replayed first in every run)"""
import os, sys, json
VERIF = os.path.dirname(os.path.dirname(os.path.abspath(__file__)))
prop, sub, name, case = sys.argv[1].upper(), sys.argv[2], sys.argv[3], json.loads(sys.argv[4])
note = sys.argv[5] if len(sys.argv) > 5 else ''
d = os.path.join(VERIF, 'regress', prop)
os.makedirs(d, exist_ok=True)
json.dump(dict(property=prop, sub=sub, seed=0, case=case, note=note), open(os.path.join(d, name + '.json'), 'w'), indent=1)
print('wrote', os.path.join(d, name + '.json'))
