#!/venv/bin/python
"""Regenerate MANIFEST.json from the table below (validated against the schema)."""
import os
import json

VERIF = os.path.dirname(os.path.dirname(os.path.abspath(__file__)))

# property -> (technique, level text, level note, design section)
CLAIMED = {}


def claim(pid, technique, text, note):
    CLAIMED[pid] = dict(technique=technique, text=text, note=note)


claim('C08', 'exhaustive enumeration (n<=3/4) + Hypothesis generated Pauli strings/batches; oracle: string Pauli algebra and dense Kronecker matrices',
      'Every phased Pauli and every ordered pair for small n is enumerated (complete for those n); beyond that, generated strings up to n=12 '
      '(n=31 for index conversions) and batch shapes are compared with an independent phase-table algebra. Bugs confined to n>=4 pair products or n>12 are not excluded.',
      'trusted: vf/ref.py Pauli phase table and numpy kron; numqi is only the system under test')

claim('C09', 'exhaustive enumeration of all tuples (n<=2; n=3 thorough) and vector pairs + Hypothesis tuples to n=10; oracle: defining equation M L M^T = L, exact round trip, counting',
      'Bijectivity for n<=2 (quick) / n<=3 (thorough) is decided completely: every image symplectic, exact round trip (injective), count = group order (onto), '
      'brute-force solution set for n<=2; transvections for every ordered vector pair n<=3 (4). Larger n is sampled (digit extremes biased).',
      'trusted: group order formula, F2 matrix arithmetic in numpy int64')
claim('C12', 'Hypothesis generated channels/states; oracle: loop reference action, explicit index formulas, textbook Gell-Mann Bloch vectors, metamorphic data-processing inequalities',
      'Channels are constructed by vf (all dims 1..5, every admissible number of terms, real/complex, isometry/unitary/replacer) and every conversion path and apply_* routine '
      'is compared with the explicit reference; monotonicity of T, F, S is a metamorphic relation independent of any implementation. Sampling only: no exhaustiveness.',
      'trusted: numpy eigh/svd for reference fidelity/entropy; tolerances 1e-10 linear, 5e-6 for square-root quantities')
claim('C14', 'complete enumeration of all constructible tables / N / shapes + Hypothesis call histories for the memoised counters; oracle: group axioms, character orthonormality, pentagonal recurrence, hook counting',
      'All 52 constructible tables are checked over all element triples; partition counts for all N<=60; tableaux for every partition of N<=8 (10); '
      'the memoised counting functions are additionally driven by generated call sequences (larger N before smaller N).',
      'trusted: vf/ref.py recurrences; irreps only for order<=24 in quick (<=120 thorough)')
claim('C16', 'enumeration of bases d<=8, tensor_n<=2 + Hypothesis matrices/batches/backends; oracle: explicit expansion v_i = Tr(G_i A)/2 with a textbook basis',
      'Basis properties are decided completely for d=2..8; analysis/synthesis and density-matrix helpers are compared with the explicit expansion for generated '
      'matrices of every kind, batch shape, backend and precision.',
      'trusted: vf/ref.py gellmann_basis; float32 tolerance 2e-4 relative')
claim('C17', 'Hypothesis dimension lists with every keep-subset, enumerated Dicke bases, generated A(x)Sym^k(B) vectors; oracle: loop / successive-trace contraction, own Dicke vectors, explicit embedding',
      'Every non-empty keep-subset of each generated dimension list is compared with two independent reference contractions; Dicke bases are enumerated up to dim^k<=1024 (4096); '
      'the fast reduction is compared with explicit embedding and tracing in both backends.',
      'trusted: numpy trace/einsum in the reference; klist order taken from get_dicke_klist (each klist validated)')

claim('C03', 'exhaustive enumeration of the index space (2277 target/control patterns, n<=6) + Hypothesis circuit programs over the full gate vocabulary; oracle: dense embedding by bit arithmetic, ordered matrix product',
      'apply_gate / apply_control_n_gate / dm routines / marginals are decided on the complete index space for n<=6 (dm n<=4) with several payload kinds per pattern; '
      'circuits are generated programs (controlled-parametrised, multi-control, re-used gate objects, extend_circuit, custom gates, placeholders, shifting) compared with a reference unitary.',
      'trusted: vf/ref.py embed() and gate matrices; kraus gates excluded (unsupported by apply_state by assertion)')
claim('C11', 'exhaustive enumeration of all ascending subsets n<=6 x 7 state kinds x seeds + Hypothesis circuits with two measurements; oracle: Born marginals by explicit summation, bit-mask projection, reference state tracking',
      'Every non-empty ascending subset for n<=6 is measured on structured and random states (zero-probability outcomes included) and judged against the explicit projective measurement, '
      'including repeatability; in-circuit bookkeeping is checked on generated prefix/measure/middle/measure/suffix programs executed twice, with index shifting.',
      'trusted: vf/ref.py born_marginal / project_outcome; no frequency test (not claimed by the property)')

claim('C07', 'model-based generation of append/query histories (Hypothesis, shrinks as one sequence) + exhaustive short histories + enumeration of (r,S) and of the Clifford groups by closure; oracle: dense reference unitary, U^dagger P U for all 4^(n+1) Paulis, string Pauli algebra',
      'Every query in every generated or enumerated history is compared for ALL phased Paulis with the conjugation by the dense product of the gates appended so far; '
      'all histories of length<=4 (1 wire) / <=3 (2 wires) are enumerated; the group-level statements are decided completely for n=1 and (thorough) n=2.',
      'trusted: vf/ref.py embed and Pauli algebra; F2 convention decided by C08; Sp(2n,F2) elements from spf2.from_int_tuple (C09), re-verified symplectic')

claim('C01', 'Hypothesis over a table of all trivialization maps x field x dim x rank x dtype x backend x batch shape x scale x theta pattern; oracle: the defining constraints in complex128, module == functional, batched == per-sample, numpy == torch',
      'Every functional map and every nn.Module option (incl. class-only objects: SO-slices of Stiefel, SeparableDensityMatrix, QuantumChannel 6 methods x kraus/choi, weighted simplex, ABk Hermitian spaces) '
      'is evaluated at generated parameter points up to the stated conditioning bound and judged against its manifold constraints; sampling, not exhaustive.',
      'trusted: numpy linear algebra for the constraints; ill-conditioned theta for polar/qr/choleskyL (cond>1e3, 30 in float32) are skipped and counted; tolerances 1e-9 (float64), 2e-3 (float32)')
claim('C02', 'enumeration of the finite configuration lattice x generated generic points; oracle: autograd Jacobian singular values vs textbook manifold dimension (rank lower-semicontinuity argument)',
      'For every map/option/field/dim/rank configuration (all with dim<=3 + a seed-dependent third of the rest in quick, all up to dim 6 in thorough) the Jacobian rank at up to 5 generic points '
      'is compared with the manifold dimension; one full-rank point decides the configuration.',
      'trusted: torch autograd of the float64 maps, numpy SVD, relative gap criterion 1e-9 with gap>=1e5')

claim('C10', 'Hypothesis over an argument table of every public numqi.random function (coverage guard via dir()) x integer seed x generated histories of interleaved global-RNG operations; oracle: validity predicate per generator, bit-identity of two seeded calls',
      'Every generator is called with every optional branch, validated against the set it advertises, and called twice with the same seed around a generated sequence of numpy/python/torch/global and '
      'numqi.random noise operations; the other seed-taking APIs (measure, Circuit.measure, CliffordCircuit, minimize, minimize_adam, get_purification, CHA solver) are treated the same way.',
      'trusted: numpy linear algebra in the predicates; distribution quality not claimed; CHA SolverError counted inconclusive')

claim('C15', 'Hypothesis Euler angles with exact / near gimbal-lock classes, quadrant grid, mixed batches, Haar rotations, spins j2<=10 + enumeration of J operators and CG pairs; oracle: matrix-level round trips, homomorphism identities, own ladder-operator exponentials, su(2) relations',
      'Rotation matrices are built by vf with exact zeros in the degenerate classes (beta = 0, pi) and in a near-degenerate band, alone and mixed into batches; extraction + rebuild must return the matrix '
      '(SU(2) up to sign); su2_to_so3 is checked as the two-to-one homomorphism through U sigma U^dagger; D^j against exp(-i a Jz) exp(-i b Jy) exp(-i g Jz); CG through orthogonality and intertwining.',
      'trusted: vf spin_ops (textbook ladder formulas), numpy eigh-based exponentials; tolerance 5e-6 on round trips (gimbal threshold 1e-7 inherent)')

claim('C18', 'enumeration of kets / UPB kinds and sizes / POVMs / Chebyshev bases + Hypothesis floats over the documented parameter ranges incl. end points and thresholds (coverage guard via dir()); oracle: explicit amplitudes, density-matrix predicates, symmetry, own partial transpose, literature formulas measured on the state',
      'Every public constructor of numqi.state and every implemented load_upb kind is exercised over its size arguments; continuous families over their whole range with end points and points 1e-9 around the '
      'separable thresholds; closed forms are checked for exact zeros, finiteness, continuity, monotonicity and against independent literature formulas / generic two-qubit routines.',
      'trusted: vf/ref.py partial_transpose; Horodecki matrices and Terhal-Vollbrecht / Wei-Goldbart formulas re-implemented from the papers cited in the docstrings')

claim('C19', 'complete enumeration per shipped code of all Pauli errors below the distance x all code-word pairs, all stabilizer circuits vs strings read from the source AST, error-set generators vs brute force over 4^n, enumerators vs sum rules + own enumerator; Hypothesis for parser strings and KL-loss on arbitrary subspaces',
      'Knill-Laflamme is decided completely for the seven shipped codes (eight in thorough) with errors applied by an independent numpy routine; stabilizer circuits are compared with the listed strings on random states; '
      'error sets for all n<=6, d<=4 (asymmetric n<=5, six Z-weights) are compared as sets with brute-force filters.',
      'trusted: vf apply_pauli (axis flips and sign masks); the listed strings are taken from the AST of the source (comparison skipped if the pattern disappears)')

claim('C05', 'Hypothesis separable states by construction (11 dimension tuples, structured and random product vectors, degenerate weights, analytic families) pushed through every criterion in generated call sequences; oracle: verdict must be "passes", closed-form measures finite and zero',
      'Each generated separable state is judged by is_ppt, is_generalized_ppt (+ every realignment norm), reduction and swap witnesses, negativity, PPT boundary, the two-qubit closed forms and (SDP sub-check) '
      'is_ABk_symmetric_ext over k, PPT and bosonic flags, single and batched, in sequences that change dims / flags between calls (memoised data).',
      'trusted: separable states are separable by construction (vf/ref.py); SDP verdicts as returned by the solver; thorough tier extends SDP sizes to (3,3), k=3')

claim('C13', 'Hypothesis two-qubit states of every rank incl. near-separable (eps down to 1e-14), threshold families, rotated Bell states; models at arbitrary parameters and scales with instance re-use; oracle: metamorphic local-unitary invariance, defining monotone formulas with own binary entropy, own partial transpose, explicit numpy ensemble average read off the Stiefel point',
      'Closed forms are judged for finiteness, ranges, LU invariance, pure-state limits, mutual formulas and PPT equivalence; every variational model is evaluated at random parameters (scales 1e-6..10) and its loss '
      'is compared with the explicit average over the decomposition it encodes (which must reproduce the state that was set, also after re-use) and with the closed form from below.',
      'trusted: numpy svd/eigh; model internals manifold/_sqrt_rho used only to read off the ensemble; tolerances 1e-7 (concurrence), 1e-8 otherwise, GME near C=1 scaled by its derivative')

claim('C06', 'Hypothesis directions (random / low-rank / non-PSD Hermitian / entangled, single and batched) and generated call histories of the SDP boundaries; oracle: eigenvalues just inside/outside the reported thresholds with own partial transpose, explicit interpolation formula, membership of inner-model states at arbitrary parameters in every outer set, analytic Werner/isotropic k-extension boundaries, order independence, nesting inequalities',
      'State-space and PPT boundaries are checked as exact thresholds (delta 1e-6) in five dimension pairs with batches; PureBosonicExt / AutodiffCHAREE states at random parameters and CHA LP decompositions are '
      'pushed through the outer tests; SDP boundary lengths are computed in generated orders of (k, PPT, bosonic) calls from a clean memo and compared with each other, with analytic values and with themselves after other calls.',
      'trusted: SDP solver accuracy ~1e-5 (orderings judged at 1e-4; feasibility test has ~1% slack, judged at 5%); CHA SolverError inconclusive; quick tier k<=2 beyond two qubits')

claim('C04', 'Hypothesis circuit programs (shared / controlled / placeholder / custom / frozen parameters, mixed trainable+placeholder names), Knill-Laflamme op sequences with overlapping factors, PSD spectra classes incl. exactly degenerate and near-deficient, losses built on the custom operators, flat-parameter bridge models; oracle: central finite differences (2nd order, 5-point stencil for matrix functions) of the forward value, forward values against dense references',
      'Every hand-written backward pass (circuit reverse sweep, controlled gates, KL inner product, PSD sqrtm, repeated sqrtm, Pade logm) and the losses and the scipy bridge built on them are differentiated '
      'at generated parameter points and compared with finite differences of their own forward value, whose correctness is tied to dense references (C03 oracle, eigen-decomposition).',
      'trusted: finite differences with step 1e-5 (5e-5 five-point) at tolerance 1e-6*max(1,|g|); exactly rank-deficient PSD inputs outside the claim; kind="custom" gates need user grad_backward (outside)')

claim('C20', 'Hypothesis generator families of all seven structure classes with dependent generators and mixed-structure first elements; subspaces with planted low-rank / product elements hidden by random mixing; random matrices for numerical ranges; oracle: Gram matrices, least-squares span tests in the real embedding, independent rank count, planted-element soundness, support function by dense eigenvalues',
      'The decomposition is checked for common norm, orthogonality, exact span equality, dimension count and preserved structure in every class; rank / complete-entanglement / rank-one certificates '
      'must never be issued for subspaces with a planted element below the bound (real and complex, hierarchy 1-2, 3 in thorough); numerical-range points must attain the support function.',
      'trusted: numpy lstsq / matrix_rank / eigvalsh; completeness of certificates not claimed (certified fraction of generic subspaces recorded as non-vacuity label)')

NOT_YET = 'check not built yet in this session (work in progress; see DESIGN.md section 4 for the planned generator and oracle)'

ALL = [f'C{i:02d}' for i in range(1, 21)]


def main():
    cmd = 'PYTHONHASHSEED=0 PYTHONPATH=/verif /venv/bin/python -m vf.check {pid} --tier {tier}'
    checks = []
    for pid in ALL:
        if pid not in CLAIMED:
            continue
        c = CLAIMED[pid]
        checks.append(dict(
            property_id=pid,
            quick_cmd=cmd.format(pid=pid, tier='quick'),
            thorough_cmd=cmd.format(pid=pid, tier='thorough'),
            evidence_file=f'evidence/{pid}.json',
            replay_cmd_template=f'PYTHONHASHSEED=0 PYTHONPATH=/verif /venv/bin/python -m vf.check {pid} --replay {{path}}',
            engine='vf',
            level_claimed=dict(category='exploration', text=c['text'], design_ref=f'DESIGN.md section 4, {pid}'),
            level_note=c['note'],
            technique=c['technique'],
        ))
    man = dict(
        version=1,
        setup_cmd='/venv/bin/python -c "import hypothesis" 2>/dev/null || /venv/bin/pip install --no-index --find-links /opt/veriftools/wheels hypothesis',
        hooks=dict(guard='NUMQI_VERIF', enable='none needed: no property requires instrumentation; checks import numqi from /repo/python (editable install, pure Python)',
                   baseline_off_cmd='cd /repo && /venv/bin/python -m pytest -ra -q -p no:cacheprovider --timeout=900 --continue-on-collection-errors',
                   source_commits=[], add_only=True),
        engines=[dict(name='vf', path='vf/', serves_properties=sorted(CLAIMED),
                      kind_free_text='Hypothesis 6.168 property-based testing + complete enumeration of finite sub-domains, independent reference oracles in vf/ref.py, '
                                     'JSON replay files, one runner (python -m vf.check)')],
        checks=checks,
        notes='Known findings: KNOWN_FINDINGS.txt. Replays are written to replays/<id>/ at run time; regress/<id>/ holds committed shrunk witnesses replayed first in every run. '
              'Sensitivity: mutants/<id>/*.patch and seeded/<id>/ are run with tools/mutants.py against scratch copies.',
        not_applicable=[dict(property_id=p, reason=NOT_YET) for p in ALL if p not in CLAIMED],
    )
    import jsonschema
    jsonschema.validate(man, json.load(open('/root/.vp/MANIFEST.schema.json')))
    with open(os.path.join(VERIF, 'MANIFEST.json'), 'w') as fid:
        json.dump(man, fid, indent=1)
    print('MANIFEST.json written:', len(checks), 'checks,', len(man['not_applicable']), 'not claimed')


if __name__ == '__main__':
    main()
