#!/venv/bin/python
"""Sensitivity tool: apply one patch to a scratch copy of /repo (outside /repo and /verif), run a check against it.

  tools/mutants.py make Cxx NAME FILE OLD NEW     create mutants/Cxx/NAME.patch by exact string replacement (first occurrence
                                                  unless --all) in /repo/FILE
  tools/mutants.py run PATCH Cxx [--tier quick] [--sub a,b] [--seed N]
  tools/mutants.py all [Cxx ...] [--jobs 3]       every mutants/Cxx/*.patch and seeded/*/patch.diff; prints the kill matrix

Scratch copies live under $HOME/scratch and are removed after each run.
"""
import os
import sys
import json
import glob
import shutil
import difflib
import argparse
import subprocess
import tempfile
from concurrent.futures import ThreadPoolExecutor

VERIF = os.path.dirname(os.path.dirname(os.path.abspath(__file__)))
REPO = '/repo'
SCRATCH = os.path.join(os.path.expanduser('~'), 'scratch')


def make(prop, name, file, old, new, all_=False):
    path = os.path.join(REPO, file)
    src = open(path).read()
    if old not in src:
        sys.exit(f'OLD string not found in {file}')
    dst = src.replace(old, new) if all_ else src.replace(old, new, 1)
    diff = ''.join(difflib.unified_diff(src.splitlines(True), dst.splitlines(True), 'a/' + file, 'b/' + file))
    out = os.path.join(VERIF, 'mutants', prop, name + '.patch')
    os.makedirs(os.path.dirname(out), exist_ok=True)
    open(out, 'w').write(diff)
    print('wrote', out)


def scratch_copy():
    os.makedirs(SCRATCH, exist_ok=True)
    d = tempfile.mkdtemp(prefix='mut-', dir=SCRATCH)
    shutil.copytree(os.path.join(REPO, 'python'), os.path.join(d, 'python'), ignore=shutil.ignore_patterns('__pycache__', '*.egg-info'))
    return d


def run(patch, prop, tier='quick', sub=None, seed=1, jobs=16, scale=None):
    d = scratch_copy()
    try:
        r = subprocess.run(['git', 'apply', '--whitespace=nowarn', os.path.abspath(patch)], cwd=d, capture_output=True, text=True)
        if r.returncode != 0:
            return dict(patch=patch, prop=prop, status='PATCH-FAILED', out=r.stderr[-500:])
        env = dict(os.environ, VF_REPO=d, PYTHONPATH=VERIF, PYTHONHASHSEED='0', VERIF_SEED=str(seed), VF_JOBS=str(jobs),
                   VF_NO_EVIDENCE='1')
        if scale:
            env['VF_SCALE'] = str(scale)
        cmd = ['/venv/bin/python', '-m', 'vf.check', prop, '--tier', tier]
        if sub:
            cmd += ['--sub', sub]
        import time
        t0 = time.time()
        r = subprocess.run(cmd, cwd=VERIF, env=env, capture_output=True, text=True)
        dt = time.time() - t0
        status = {0: 'SURVIVED', 1: 'KILLED', 2: 'HARNESS-ERROR'}.get(r.returncode, f'EXIT-{r.returncode}')
        keys = [l for l in r.stdout.splitlines() if l.startswith('violated:')]
        return dict(patch=patch, prop=prop, status=status, wall=round(dt, 1), keys=keys[:4],
                    out=(r.stdout[-1500:] + r.stderr[-1500:]) if status not in ('KILLED',) else '')
    finally:
        shutil.rmtree(d, ignore_errors=True)


def collect(props):
    items = []
    for p in sorted(glob.glob(os.path.join(VERIF, 'mutants', 'C*', '*.patch'))):
        prop = os.path.basename(os.path.dirname(p))
        if not props or prop in props:
            items.append((p, prop))
    for m in sorted(glob.glob(os.path.join(VERIF, 'seeded', '*', 'meta.json'))):
        meta = json.load(open(m))
        prop = meta['property']
        p = os.path.join(os.path.dirname(m), 'patch.diff')
        if (not props or prop in props) and os.path.exists(p):
            items.append((p, prop))
    return items


def main():
    ap = argparse.ArgumentParser()
    sp = ap.add_subparsers(dest='cmd', required=True)
    a = sp.add_parser('make')
    a.add_argument('prop'), a.add_argument('name'), a.add_argument('file'), a.add_argument('old'), a.add_argument('new')
    a.add_argument('--all', action='store_true')
    a = sp.add_parser('run')
    a.add_argument('patch'), a.add_argument('prop')
    a.add_argument('--tier', default='quick'), a.add_argument('--sub', default=None), a.add_argument('--seed', type=int, default=1)
    a.add_argument('--scale', default=None)
    a = sp.add_parser('all')
    a.add_argument('props', nargs='*')
    a.add_argument('--jobs', type=int, default=3), a.add_argument('--seed', type=int, default=1)
    a.add_argument('--tier', default='quick')
    args = ap.parse_args()
    if args.cmd == 'make':
        make(args.prop.upper(), args.name, args.file, args.old.encode().decode('unicode_escape'), args.new.encode().decode('unicode_escape'), args.all)
    elif args.cmd == 'run':
        r = run(args.patch, args.prop.upper(), args.tier, args.sub, args.seed, scale=args.scale)
        print(json.dumps(r, indent=1))
    else:
        items = collect([p.upper() for p in args.props])
        with ThreadPoolExecutor(args.jobs) as ex:
            res = list(ex.map(lambda it: run(it[0], it[1], args.tier, None, args.seed, jobs=max(2, 16 // args.jobs)), items))
        for r in res:
            print(f"{r['status']:14s} {r['prop']} {os.path.relpath(r['patch'], VERIF)} {r.get('wall', '')}s {'; '.join(k[10:90] for k in r.get('keys', []))}")
            if r['status'] not in ('KILLED', 'SURVIVED'):
                print(r.get('out', ''))
        bad = [r for r in res if r['status'] != 'KILLED' and '/negctl-' not in r['patch']]
        print(f'{len(res) - len(bad)}/{len(res)} killed (negative controls, named negctl-*, must survive)')


if __name__ == '__main__':
    main()
